// Package refwire is an independent reference implementation of the
// BitTorrent peer wire protocol (BEP 3, 6, 9, 10, 11, lt_donthave,
// upload_only), written from the specifications only.  It is meant to be
// used as a test oracle: encoders are canonical, decoders are strict and
// total (they return a value or an error for every input, never panic).
//
// The package has no global mutable state, starts no goroutines, and uses
// neither time nor randomness.
package refwire

import (
	"fmt"
	"sort"
	"strconv"
)

// Value is a decoded bencoded value (BEP 3, "bencoding").  The mapping is
//
//	integer     -> int64
//	byte string -> []byte   (always []byte, never string)
//	list        -> []any
//	dictionary  -> map[string]any
type Value = any

// Nesting limits.  BDecode rejects input whose containers nest deeper than
// MaxDepthStrict in strict mode; in lenient mode a (larger) bound still
// applies so that recursion depth is bounded on hostile input.
const (
	MaxDepthStrict  = 64
	MaxDepthLenient = 1024
)

// BencodeError describes why a byte string is not acceptable bencoding.
type BencodeError struct {
	Off int    // offset in the input at which the problem was detected
	Msg string // human readable description
}

func (e *BencodeError) Error() string {
	return fmt.Sprintf("bencode: offset %d: %s", e.Off, e.Msg)
}

// BEncode returns the canonical bencoding of v (BEP 3): integers as
// i<decimal>e, byte strings as <len>:<bytes>, lists as l...e, dictionaries as
// d...e with keys sorted as raw byte strings.
//
// Accepted Go types: int, int8..int64, uint, uint8..uint64, bool (0/1),
// string, []byte, []any, map[string]any, map[string]int64, map[string]int.
// Any other type is a programming error and panics.
func BEncode(v any) []byte {
	return appendValue(nil, v)
}

func appendInt(dst []byte, i int64) []byte {
	dst = append(dst, 'i')
	dst = strconv.AppendInt(dst, i, 10)
	return append(dst, 'e')
}

func appendUint(dst []byte, u uint64) []byte {
	dst = append(dst, 'i')
	dst = strconv.AppendUint(dst, u, 10)
	return append(dst, 'e')
}

func appendString(dst []byte, s string) []byte {
	dst = strconv.AppendInt(dst, int64(len(s)), 10)
	dst = append(dst, ':')
	return append(dst, s...)
}

func appendBytes(dst []byte, s []byte) []byte {
	dst = strconv.AppendInt(dst, int64(len(s)), 10)
	dst = append(dst, ':')
	return append(dst, s...)
}

func appendValue(dst []byte, v any) []byte {
	switch x := v.(type) {
	case int:
		return appendInt(dst, int64(x))
	case int8:
		return appendInt(dst, int64(x))
	case int16:
		return appendInt(dst, int64(x))
	case int32:
		return appendInt(dst, int64(x))
	case int64:
		return appendInt(dst, x)
	case uint:
		return appendUint(dst, uint64(x))
	case uint8:
		return appendUint(dst, uint64(x))
	case uint16:
		return appendUint(dst, uint64(x))
	case uint32:
		return appendUint(dst, uint64(x))
	case uint64:
		return appendUint(dst, x)
	case bool:
		if x {
			return appendInt(dst, 1)
		}
		return appendInt(dst, 0)
	case string:
		return appendString(dst, x)
	case []byte:
		return appendBytes(dst, x)
	case []any:
		dst = append(dst, 'l')
		for _, e := range x {
			dst = appendValue(dst, e)
		}
		return append(dst, 'e')
	case map[string]any:
		keys := make([]string, 0, len(x))
		for k := range x {
			keys = append(keys, k)
		}
		// Go string comparison is bytewise, which is the order BEP 3
		// requires ("sorted as raw strings, not alphanumerics").
		sort.Strings(keys)
		dst = append(dst, 'd')
		for _, k := range keys {
			dst = appendString(dst, k)
			dst = appendValue(dst, x[k])
		}
		return append(dst, 'e')
	case map[string]int64:
		m := make(map[string]any, len(x))
		for k, e := range x {
			m[k] = e
		}
		return appendValue(dst, m)
	case map[string]int:
		m := make(map[string]any, len(x))
		for k, e := range x {
			m[k] = int64(e)
		}
		return appendValue(dst, m)
	default:
		panic(fmt.Sprintf("refwire.BEncode: unsupported type %T", v))
	}
}

// BDecode decodes ONE bencoded value from the front of b and returns it
// together with the bytes that follow it.
//
// In strict mode the following are rejected (all are non-canonical under
// BEP 3): integers with leading zeros, "-0", empty integers, string lengths
// with leading zeros, dictionaries whose keys are not strictly ascending
// (i.e. unsorted or duplicated), and containers nested deeper than
// MaxDepthStrict.
//
// In lenient mode leading zeros and "-0" are accepted, dictionary keys may
// come in any order (for duplicates the last one wins), and the nesting bound
// is MaxDepthLenient.
//
// In both modes: integers must fit an int64, a string length must not exceed
// the remaining input (it is checked before anything is allocated), dictionary
// keys must be byte strings, and truncated input is an error.  Byte strings in
// the result are copies and do not alias b.  The function never panics and
// allocates O(len(b)) memory.
//
// On error the returned value is nil and rest is b.
func BDecode(b []byte, strict bool) (v any, rest []byte, err error) {
	d := decoder{b: b, strict: strict, maxDepth: MaxDepthLenient}
	if strict {
		d.maxDepth = MaxDepthStrict
	}
	v, n, err := d.value(0, 0)
	if err != nil {
		return nil, b, err
	}
	return v, b[n:], nil
}

// BDecodeAll is BDecode for inputs that must consist of exactly one value;
// trailing bytes are an error.
func BDecodeAll(b []byte, strict bool) (any, error) {
	v, rest, err := BDecode(b, strict)
	if err != nil {
		return nil, err
	}
	if len(rest) != 0 {
		return nil, &BencodeError{len(b) - len(rest), "trailing data after value"}
	}
	return v, nil
}

type decoder struct {
	b        []byte
	strict   bool
	maxDepth int
}

func (d *decoder) errf(off int, format string, args ...any) error {
	return &BencodeError{Off: off, Msg: fmt.Sprintf(format, args...)}
}

func isDigit(c byte) bool { return c >= '0' && c <= '9' }

// value decodes the value starting at offset pos; depth is the number of
// containers enclosing it.  It returns the value and the offset just past it.
func (d *decoder) value(pos, depth int) (any, int, error) {
	if pos >= len(d.b) {
		return nil, pos, d.errf(pos, "unexpected end of input")
	}
	c := d.b[pos]
	switch {
	case c == 'i':
		return d.integer(pos)
	case isDigit(c):
		s, next, err := d.str(pos)
		if err != nil {
			return nil, pos, err
		}
		return s, next, nil
	case c == 'l':
		if depth+1 > d.maxDepth {
			return nil, pos, d.errf(pos, "nesting deeper than %d", d.maxDepth)
		}
		return d.list(pos, depth+1)
	case c == 'd':
		if depth+1 > d.maxDepth {
			return nil, pos, d.errf(pos, "nesting deeper than %d", d.maxDepth)
		}
		return d.dict(pos, depth+1)
	default:
		return nil, pos, d.errf(pos, "unexpected byte 0x%02x", c)
	}
}

// integer decodes i<digits>e at pos.
func (d *decoder) integer(pos int) (any, int, error) {
	b := d.b
	i := pos + 1 // skip 'i'
	neg := false
	if i < len(b) && b[i] == '-' {
		neg = true
		i++
	}
	start := i
	for i < len(b) && isDigit(b[i]) {
		i++
	}
	if i == start {
		return nil, pos, d.errf(start, "integer without digits")
	}
	if i >= len(b) {
		return nil, pos, d.errf(i, "unterminated integer")
	}
	if b[i] != 'e' {
		return nil, pos, d.errf(i, "unexpected byte 0x%02x in integer", b[i])
	}
	digits := b[start:i]
	if d.strict {
		if len(digits) > 1 && digits[0] == '0' {
			return nil, pos, d.errf(start, "integer with leading zero")
		}
		if neg && len(digits) == 1 && digits[0] == '0' {
			return nil, pos, d.errf(pos, "negative zero")
		}
	}
	// Accumulate in a uint64 with an explicit overflow check; the magnitude
	// may be at most 2^63-1 (or 2^63 for negative numbers).
	limit := uint64(1<<63 - 1)
	if neg {
		limit = 1 << 63
	}
	var u uint64
	for _, c := range digits {
		dv := uint64(c - '0')
		if u > (limit-dv)/10 {
			return nil, pos, d.errf(start, "integer out of int64 range")
		}
		u = u*10 + dv
	}
	var v int64
	if neg {
		v = int64(-u) // two's complement: correct also for u == 1<<63
	} else {
		v = int64(u)
	}
	return v, i + 1, nil
}

// str decodes <len>:<bytes> at pos and returns a copy of the bytes.
func (d *decoder) str(pos int) ([]byte, int, error) {
	b := d.b
	i := pos
	for i < len(b) && isDigit(b[i]) {
		i++
	}
	if i == pos {
		if pos >= len(b) {
			return nil, pos, d.errf(pos, "unexpected end of input, expected string")
		}
		return nil, pos, d.errf(pos, "expected string, found byte 0x%02x", b[pos])
	}
	if i >= len(b) {
		return nil, pos, d.errf(i, "unterminated string length")
	}
	if b[i] != ':' {
		return nil, pos, d.errf(i, "unexpected byte 0x%02x in string length", b[i])
	}
	digits := b[pos:i]
	if d.strict && len(digits) > 1 && digits[0] == '0' {
		return nil, pos, d.errf(pos, "string length with leading zero")
	}
	// The declared length is validated against the remaining input before
	// anything is allocated.  n is kept <= len(b) so it cannot overflow.
	remaining := len(b) - (i + 1)
	n := 0
	for _, c := range digits {
		n = n*10 + int(c-'0')
		if n > remaining {
			return nil, pos, d.errf(pos, "string length exceeds remaining input (%d bytes)", remaining)
		}
	}
	start := i + 1
	out := make([]byte, n)
	copy(out, b[start:start+n])
	return out, start + n, nil
}

func (d *decoder) list(pos, depth int) (any, int, error) {
	b := d.b
	i := pos + 1 // skip 'l'
	out := []any{}
	for {
		if i >= len(b) {
			return nil, pos, d.errf(i, "unterminated list")
		}
		if b[i] == 'e' {
			return out, i + 1, nil
		}
		v, next, err := d.value(i, depth)
		if err != nil {
			return nil, pos, err
		}
		out = append(out, v)
		i = next
	}
}

func (d *decoder) dict(pos, depth int) (any, int, error) {
	b := d.b
	i := pos + 1 // skip 'd'
	out := map[string]any{}
	first := true
	var prev string
	for {
		if i >= len(b) {
			return nil, pos, d.errf(i, "unterminated dictionary")
		}
		if b[i] == 'e' {
			return out, i + 1, nil
		}
		if !isDigit(b[i]) {
			return nil, pos, d.errf(i, "dictionary key is not a string (byte 0x%02x)", b[i])
		}
		kb, next, err := d.str(i)
		if err != nil {
			return nil, pos, err
		}
		key := string(kb)
		if d.strict && !first {
			if key == prev {
				return nil, pos, d.errf(i, "duplicate dictionary key %q", key)
			}
			if key < prev {
				return nil, pos, d.errf(i, "dictionary keys not sorted (%q after %q)", key, prev)
			}
		}
		first = false
		prev = key
		v, next2, err := d.value(next, depth)
		if err != nil {
			return nil, pos, err
		}
		out[key] = v // lenient mode: last occurrence wins
		i = next2
	}
}
