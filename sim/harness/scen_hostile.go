package harness

import (
	"bytes"
	"context"
	"encoding/binary"
	"fmt"
	"time"

	"github.com/jech/storrent/alloc"
	"github.com/jech/storrent/config"
	"github.com/jech/storrent/peer"
	"github.com/jech/storrent/zzsim/refwire"
	"github.com/jech/storrent/zzsim/simnet"
	"github.com/jech/storrent/zzsim/simrt"
)

// C05: no sequence of well-framed messages from a peer can crash or bloat
// the client.

func init() {
	Register(&Scenario{
		Name: "hostile-peer", Knobs: true, Props: []string{"C05"}, CrashTo: "C05",
		Horizon: 3 * time.Hour, MaxSteps: 2000000, Weight: 3, Main: hostileMain,
	})
}

type hostileMsg struct {
	m     refwire.Message
	kind  string
	class string // allocation class, for known findings
	vote  uint64 // an accepted-looking large metadata_size vote carried by the message
	extra []byte // further frames sent in the same write
}

func drawIndex(st *simrt.Stream, np int) uint32 {
	switch st.Weighted(4, 2, 2, 1, 1, 1, 2) {
	case 0:
		return uint32(st.Choice(max(np, 1)))
	case 1:
		return uint32(np)
	case 2:
		return uint32(np + 1 + st.Choice(100))
	case 3:
		return 1 << 20
	case 4:
		return 1 << 27 // 16 MiB of bitmap, 256 MiB of availability counters
	case 5:
		// the largest values are kept below what would exhaust a worker's
		// address space if the system does allocate in proportion
		if st.Bool(1, 8) {
			return 1 << 29
		}
		return 1<<26 + uint32(st.Choice(1000))
	}
	return uint32(st.Choice(1 << 16))
}

func genHostile(st *simrt.Stream, spec *TorSpec, p *RefPeer) hostileMsg {
	np := spec.Geo.NPieces
	ps := uint32(spec.Geo.PieceSize)
	idx := func() uint32 {
		if spec.Geo.PieceSize >= 1<<31 && st.Bool(1, 2) {
			return ^uint32(0) - uint32(st.Choice(4)) // index x piece length leaves 63 bits
		}
		return drawIndex(st, np)
	}
	off := func() uint32 {
		return simrt.Pick(st, 0, chunkSize, ps-chunkSize, ps, ps+chunkSize, 1, 1<<31, ^uint32(0), uint32(st.Choice(int(ps)+1)))
	}
	ln := func() uint32 {
		return simrt.Pick(st, chunkSize, 0, 1, chunkSize+1, 1<<17, 1<<27, 1<<31, ^uint32(0))
	}
	extID := func(name string, dflt uint8) uint8 {
		if id, ok := p.SysExtIDs[name]; ok && id > 0 && id < 256 && st.Bool(4, 5) {
			return uint8(id)
		}
		return dflt
	}
	switch k := st.Weighted(6, 4, 2, 2, 4, 3, 3, 2, 2, 6, 6, 5, 6, 3, 2, 2, 2, 1, 1, 3); k {
	case 0:
		i := idx()
		class := ""
		if i >= 1<<20 {
			class = "have-index"
		}
		return hostileMsg{refwire.Have{Index: i}, "have", class, 0, nil}
	case 1:
		n := simrt.Pick(st, (np+7)/8, 0, (np+7)/8+1, max((np+7)/8-1, 0), 1000, 100000)
		b := drawBytes(st, n)
		if st.Bool(1, 2) {
			for i := range b {
				b[i] = 0xff
			}
		}
		return hostileMsg{refwire.Bitfield{Bits: b}, "bitfield", "", 0, nil}
	case 2:
		return hostileMsg{refwire.HaveAll{}, "have-all", "", 0, nil}
	case 3:
		return hostileMsg{refwire.HaveNone{}, "have-none", "", 0, nil}
	case 4:
		return hostileMsg{refwire.Request{Index: idx(), Begin: off(), Length: ln()}, "request", "request-length", 0, nil}
	case 5:
		return hostileMsg{refwire.Cancel{Index: idx(), Begin: off(), Length: ln()}, "cancel", "", 0, nil}
	case 6:
		return hostileMsg{refwire.RejectRequest{Index: idx(), Begin: off(), Length: ln()}, "reject", "", 0, nil}
	case 7:
		return hostileMsg{refwire.AllowedFast{Index: idx()}, "allowed-fast", "", 0, nil}
	case 8:
		return hostileMsg{refwire.SuggestPiece{Index: idx()}, "suggest", "", 0, nil}
	case 9:
		n := simrt.Pick(st, chunkSize, 0, 1, chunkSize-1, chunkSize+1, 2*chunkSize, 3*chunkSize+5)
		i := idx()
		if st.Bool(2, 3) {
			i = uint32(st.Choice(np))
		}
		return hostileMsg{refwire.Piece{Index: i, Begin: off(), Data: drawBytes(st, n)}, "piece", "", 0, nil}
	case 10: // extended handshake
		h := refwire.ExtHandshake{}
		if st.Bool(2, 3) {
			h.M = map[string]int64{}
			for _, n := range []string{"ut_metadata", "ut_pex", "lt_donthave", "upload_only", "x"} {
				if st.Bool(1, 2) {
					h.M[n] = int64(simrt.Pick(st, 1, 0, 2, 255, 3))
				}
			}
		}
		class := ""
		vote := uint64(0)
		if st.Bool(1, 2) {
			h.HasMetadataSize = true
			tl := int64(len(spec.Info))
			h.MetadataSize = simrt.Pick(st, tl, 0, 1, tl-1, tl+1, 1<<20, 128<<20, 128<<20+1, 1<<32-1)
			if h.MetadataSize >= 1<<20 && h.MetadataSize != tl {
				class = "metadata-size-vote"
				if h.MetadataSize <= 128<<20 {
					vote = uint64(h.MetadataSize)
				}
			}
		}
		if st.Bool(1, 2) {
			h.HasReqq, h.Reqq = true, simrt.Pick(st, int64(250), 0, 1, 1<<32-1)
		}
		if st.Bool(1, 2) {
			h.HasP, h.P = true, int64(st.Choice(65536))
		}
		if st.Bool(1, 3) {
			h.HasV, h.V = true, string(drawPrintable(st, st.Choice(200)))
		}
		if st.Bool(1, 4) {
			h.IPv4 = drawBytes(st, simrt.Pick(st, 4, 0, 3, 16))
			h.IPv6 = drawBytes(st, simrt.Pick(st, 16, 0, 4, 17))
		}
		return hostileMsg{refwire.Extended{SubID: 0, Payload: refwire.EncodeExtHandshake(h)}, "ext-handshake", class, vote, nil}
	case 11: // metadata messages
		tl := int64(len(spec.Info))
		nb := (tl + 16383) / 16384
		mm := refwire.MetadataMsg{Type: int64(st.Weighted(3, 6, 2, 1)), Piece: simrt.Pick(st, 0, nb-1, nb, nb+1, 1<<32-1, int64(st.Choice(int(nb)+1)))}
		if mm.Type == 3 {
			mm.Type = int64(3 + st.Choice(250))
		}
		if mm.Type == 1 {
			mm.HasTotalSize = true
			mm.TotalSize = simrt.Pick(st, tl, tl, 0, tl+1, 128<<20, 1<<32-1)
			if st.Bool(1, 6) {
				mm.HasTotalSize = false // optional in practice: some clients leave it out
			}
			n := simrt.Pick(st, 16384, 0, 1, 16383, 16385, int(tl%16384))
			lo := mm.Piece * 16384
			if lo >= 0 && lo < tl && st.Bool(1, 2) {
				mm.Data = spec.Info[lo:min(lo+int64(n), tl)] // authentic bytes
			} else {
				mm.Data = drawBytes(st, n)
			}
		}
		return hostileMsg{refwire.Extended{SubID: extID("ut_metadata", 2), Payload: refwire.EncodeMetadata(mm)}, "ut_metadata", "", 0, nil}
	case 12: // PEX
		var a, d []refwire.PexPeer
		na := simrt.Pick(st, 3, 0, 50, 3000)
		for i := 0; i < na; i++ {
			ip := make([]byte, simrt.Pick(st, 4, 16))
			st.Fill(ip)
			ip[0] = 81
			a = append(a, refwire.PexPeer{IP: ip, Port: uint16(st.Choice(65536)), Flags: byte(st.Choice(256))})
		}
		for i := st.Choice(5); i > 0; i-- {
			ip := make([]byte, 4)
			st.Fill(ip)
			d = append(d, refwire.PexPeer{IP: ip, Port: uint16(st.Choice(65536))})
		}
		payload := refwire.EncodePex(a, d)
		class := ""
		if st.Bool(1, 4) {
			var hc string
			payload, hc = hostileBencode(st)
			if hc == "declared-string-length" {
				class = "bencode-declared-string-length"
			}
		}
		return hostileMsg{refwire.Extended{SubID: extID("ut_pex", 1), Payload: payload}, "ut_pex", class, 0, nil}
	case 13:
		return hostileMsg{refwire.Extended{SubID: extID("lt_donthave", 3), Payload: binary.BigEndian.AppendUint32(nil, idx())}, "lt_donthave", "", 0, nil}
	case 14:
		return hostileMsg{refwire.Extended{SubID: extID("upload_only", 4), Payload: []byte{byte(st.Choice(2))}}, "upload_only", "", 0, nil}
	case 15:
		return hostileMsg{refwire.Extended{SubID: uint8(5 + st.Choice(250)), Payload: drawBytes(st, st.Choice(100))}, "ext-unknown", "", 0, nil}
	case 16:
		return hostileMsg{refwire.Unknown{ID: uint8(simrt.Pick(st, 10, 11, 12, 18, 19, 21, 255)), Payload: drawBytes(st, st.Choice(50))}, "unknown-id", "", 0, nil}
	case 17:
		return hostileMsg{refwire.Port{Port: uint16(st.Choice(65536))}, "port", "", 0, nil}
	case 19:
		// a complete, well-formed set of metadata blocks of which one is
		// forged, and one more block behind it (the hash check fails in
		// between)
		tl := int64(len(spec.Info))
		nb := int((tl + 16383) / 16384)
		bad := st.Choice(nb)
		id := extID("ut_metadata", 2)
		var msgs []refwire.Message
		for b := 0; b <= nb; b++ {
			i := b
			if b == nb {
				i = st.Choice(nb + 1)
			}
			lo := int64(i) * 16384
			mm := refwire.MetadataMsg{Type: refwire.MetadataData, Piece: int64(i), TotalSize: tl, HasTotalSize: true}
			if lo < tl {
				mm.Data = bytes.Clone(spec.Info[lo:min(lo+16384, tl)])
			} else {
				mm.Data = drawBytes(st, 100)
			}
			if (b == bad || b == nb) && len(mm.Data) > 0 {
				mm.Data[st.Choice(len(mm.Data))] ^= 0x41
			}
			if b == nb && st.Bool(1, 2) {
				mm.HasTotalSize = st.Bool(1, 2)
				mm.TotalSize = 0
			}
			msgs = append(msgs, refwire.Extended{SubID: id, Payload: refwire.EncodeMetadata(mm)})
		}
		var extra []byte
		for _, m := range msgs[1:] {
			extra = append(extra, refwire.Encode(m)...)
		}
		return hostileMsg{msgs[0], "metadata-forged-set", "", 0, extra}
	default:
		return hostileMsg{simrt.Pick[refwire.Message](st, refwire.KeepAlive{}, refwire.Choke{}, refwire.Unchoke{}, refwire.Interested{}, refwire.NotInterested{}), "state", "", 0, nil}
	}
}

func hostileMain(rc *RunCtx) {
	st := rc.St
	w := NewWorld(rc)
	defer w.Shutdown()
	magnet := st.Bool(1, 2)
	opts := SpecOpts{MaxPieces: 8, MultiFile: 1, BigInfo: true}
	if st.Bool(1, 16) {
		// a legal oddity: one short piece under a piece length of 2 GiB and
		// more (products of an index and the piece length leave 63 bits)
		opts = SpecOpts{MultiFile: 1, PieceCounts: []int{1}, PieceSize: simrt.Pick(st, int64(1)<<31, 1<<31+16384, 1<<32-16384)}
		simrt.Probe("piece-length-of-2GiB-or-more")
	}
	spec := GenTorSpec(st, opts)
	quiet := st.Bool(1, 2)
	config.SetIdleRate(0)
	if !quiet {
		config.SetIdleRate(uint32(simrt.Pick(st, 65536, 0)))
		config.PrefetchRate = float64(simrt.Pick(st, 0, 65536))
	}
	t, err := w.AddTorrent(spec, magnet, "")
	if err != nil {
		rc.Fail("C05", "setup", "", "AddTorrent: %v", err)
		return
	}
	w.Link = func() (simnet.LinkCfg, simnet.LinkCfg) {
		out, in := drawSysLink(st)
		if quiet {
			// allocation is measured per message: deliver each write in
			// one piece, so that the simulated network's own bookkeeping
			// (a segment and a timer per byte) stays out of the figure
			in.Seg, out.Seg = simnet.SegWhole, simnet.SegWhole
		}
		return out, in
	}
	// an honest seed, which may or may not hand out the metadata
	seedCfg := drawSeedCfg(st, "honest", 7000)
	seedCfg.NoMetadata = magnet && st.Bool(1, 2)
	seed := w.NewPeer(spec, seedCfg)
	seed.Connect()
	ctx, cancel := context.WithCancel(context.Background())
	defer cancel()
	if !quiet {
		w.StartQuiescer(3 * time.Second)
		simrt.GoNamed("noise", func() {
			for !w.stopped {
				simrt.Sleep(time.Duration(500+st.Choice(4000)) * time.Millisecond)
				switch st.Choice(4) {
				case 0:
					c, err := t.GetConf()
					if err == nil {
						c.UseTrackers = !c.UseTrackers
						t.SetConf(c)
					}
				case 1:
					if t.InfoComplete() {
						t.Pieces.Expire(0, nil, func(i uint32) { t.Have(i, false) })
					}
				case 2:
					t.GetPeers()
				case 3:
					if t.InfoComplete() {
						t.Request(uint32(st.Choice(spec.Geo.NPieces)), 0, true, false)
					}
				}
			}
		})
		if !magnet {
			simrt.GoNamed("reader", func() {
				r := t.NewReader(ctx, 0, spec.Geo.Length)
				defer r.Close()
				buf := make([]byte, 30000)
				for !w.stopped {
					n, err := r.Read(buf)
					if err != nil {
						return
					}
					if n == 0 {
						simrt.Sleep(50 * time.Millisecond)
					}
				}
			})
		}
	}
	nh := 1
	if !quiet {
		nh += st.Choice(3)
	}
	rc.SetSample("setup", fmt.Sprintf("magnet=%v quiet-world=%v piece=%dK pieces=%d info=%d bytes hostile-peers=%d honest-seed-serves-metadata=%v", magnet, quiet, spec.Geo.PieceSize>>10, spec.Geo.NPieces, len(spec.Info), nh, !seedCfg.NoMetadata))
	join := &Join{n: nh}
	var bigVote uint64 // largest acceptable metadata_size a hostile peer has voted for before the metadata was complete
	for h := 0; h < nh; h++ {
		h := h
		nmsg := 4 + st.Choice(40)
		simrt.GoNamed(fmt.Sprintf("hostile-driver%d", h), func() {
			defer join.Done()
			var p *RefPeer
			connect := func() bool {
				cfg := PeerCfg{
					Name: fmt.Sprintf("hostile%d", h), Fast: st.Bool(2, 3), Ext: st.Bool(3, 4), DHT: st.Bool(1, 3), MSE: st.Bool(1, 5),
					Have: func(int) bool { return false }, Advertise: 3, Reqq: -1, MetadataSize: 0, UnchokeAfter: -1, NoKeepAlive: true, NoMonitor: true,
					OnMessage: func(*RefPeer, refwire.Message) bool { return false },
				}
				if p == nil {
					p = w.NewPeer(spec, cfg)
				}
				p.rawAdvertised = true
				p.Connect()
				for k := 0; k < 50 && !p.Ready && !p.Closed; k++ {
					simrt.Sleep(100 * time.Millisecond)
				}
				return p.Ready
			}
			if !connect() {
				return
			}
			for k := 0; k < nmsg && !rc.Failed(); k++ {
				if p.Closed {
					simrt.Probe("hostile-peer-was-disconnected")
					simrt.Sleep(time.Second)
					if !connect() {
						return
					}
				}
				hm := genHostile(st, spec, p)
				frame := append(refwire.Encode(hm.m), hm.extra...)
				state := "with-metadata"
				if !t.InfoComplete() {
					state = "before-metadata"
				}
				simrt.Probe("hostile-" + hm.kind + "-" + state)
				if quiet {
					w.AwaitQuiet(2 * time.Second)
				}
				a0, h0 := alloc.Bytes(), heapAllocBytes()
				if state == "before-metadata" {
					bigVote = max(bigVote, hm.vote)
				}
				rc.Tracef("%s sends %s (%d bytes) %s: %s", p.Cfg.Name, hm.kind, len(frame), state, briefMsg(hm.m))
				p.SendRaw(frame)
				rc.Progress()
				if quiet {
					ok := w.AwaitQuiet(3 * time.Second)
					if !ok {
						simrt.Sleep(time.Second)
					}
					a1, h1 := alloc.Bytes(), heapAllocBytes()
					bound := uint64(32<<20) + 128*uint64(len(frame)) + 32*uint64(spec.Geo.NPieces) + 2*uint64(spec.Geo.PieceSize)
					if h1-h0 > bound {
						class := hm.class
						if class != "bencode-declared-string-length" && state == "before-metadata" && bigVote >= 1<<20 && h1-h0 >= bigVote && h1-h0 <= bigVote+bound {
							// the size a hostile peer voted for earlier in this run wins the
							// (re)count only now: the same allocation, one message later
							class = "metadata-size-vote"
						}
						rc.Fail("C05", "alloc-bound", class, "after a %d-byte %s message (%s, %s) the process allocated %d KiB before it came to rest (bound %d KiB)", len(frame), hm.kind, briefMsg(hm.m), state, (h1-h0)>>10, bound>>10)
						return
					}
					if a1-a0 > spec.Geo.PieceSize {
						rc.Fail("C05", "piece-memory", "", "after a %s message piece memory grew by %d bytes, more than one piece (%d)", hm.kind, a1-a0, spec.Geo.PieceSize)
						return
					}
				} else {
					simrt.Sleep(time.Duration(st.Choice(800)) * time.Millisecond)
				}
			}
		})
	}
	join.Wait()
	if rc.Failed() {
		return
	}
	// the client is still alive and well: it answers, and the honest peer
	// was not harmed
	simrt.Sleep(2 * time.Second)
	answered := false
	simrt.GoNamed("stats", func() {
		if s, err := t.GetStats(); err == nil && s != nil {
			answered = true
		}
	})
	simrt.Sleep(5 * time.Second)
	if !answered {
		rc.Fail("C05", "unresponsive", "", "the torrent no longer answers GetStats after the hostile traffic")
	}
	if quiet && seed.Closed && seed.CloseErr != "" && seed.Ready {
		rc.Fail("C05", "collateral", "", "the honest peer's connection was closed: %s", seed.CloseErr)
	}
	_ = peer.NumUnchoking
}

func briefMsg(m refwire.Message) string {
	switch x := m.(type) {
	case refwire.Piece:
		return fmt.Sprintf("piece{%d %d %d bytes}", x.Index, x.Begin, len(x.Data))
	case refwire.Bitfield:
		return fmt.Sprintf("bitfield{%d bytes}", len(x.Bits))
	case refwire.Extended:
		p := x.Payload
		if len(p) > 60 {
			p = p[:60]
		}
		return fmt.Sprintf("extended{%d %q}", x.SubID, p)
	case refwire.Unknown:
		return fmt.Sprintf("unknown{%d, %d bytes}", x.ID, len(x.Payload))
	}
	return fmt.Sprintf("%T%+v", m, m)
}
