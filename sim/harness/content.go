package harness

import (
	"crypto/sha1"

	"github.com/jech/storrent/zzsim/simrt"
)

// Ground truth: torrent content is a keyed, position-dependent byte
// function that never produces 0x00 (fresh memory) or 0xDB (poison), so
// stale, shifted, zeroed, poisoned or foreign bytes differ from valid ones.

func contentByte(key uint64, off int64) byte {
	w := simrt.Mix(key, uint64(off>>3))
	b := byte(w >> (8 * uint(off&7)))
	switch b {
	case 0x00:
		return 0x01
	case 0xDB:
		return 0xDC
	}
	return b
}

// Content returns bytes [off, off+n) of the content keyed by key.
func Content(key uint64, off int64, n int) []byte {
	p := make([]byte, n)
	for i := range p {
		p[i] = contentByte(key, off+int64(i))
	}
	return p
}

// MakeContent materialises the whole content.
func MakeContent(key uint64, length int64) []byte {
	p := make([]byte, length)
	for o := int64(0); o < length; o += 8 {
		w := simrt.Mix(key, uint64(o>>3))
		for j := int64(0); j < 8 && o+j < length; j++ {
			b := byte(w >> (8 * uint(j)))
			switch b {
			case 0x00:
				b = 0x01
			case 0xDB:
				b = 0xDC
			}
			p[o+j] = b
		}
	}
	return p
}

const chunkSize = 16 * 1024

// Geometry of a torrent's data.
type Geometry struct {
	PieceSize int64
	Length    int64
	NPieces   int
}

func (g Geometry) PieceLen(i int) int64 {
	if i < g.NPieces-1 {
		return g.PieceSize
	}
	return g.Length - int64(g.NPieces-1)*g.PieceSize
}

func (g Geometry) Chunks(i int) int {
	return int((g.PieceLen(i) + chunkSize - 1) / chunkSize)
}

// DrawGeometry draws a geometry; 0 choices give one 16 KiB piece.
func DrawGeometry(st *simrt.Stream, maxPieces int, big bool) Geometry {
	// (any multiple of 16 KiB is a legal piece length: not only powers of two)
	sizes := []int64{16 << 10, 32 << 10, 64 << 10, 48 << 10}
	if big {
		sizes = append(sizes, 128<<10, 256<<10, 112<<10)
	}
	ps := sizes[st.Weighted(4, 4, 2, 2, 1, 1, 1)%len(sizes)]
	n := 1 + st.Choice(maxPieces)
	length := int64(n) * ps
	switch st.Weighted(3, 3, 2, 2) {
	case 0: // exact
	case 1: // short last piece, whole blocks
		if ps > chunkSize {
			length -= chunkSize * int64(1+st.Choice(int(ps/chunkSize)-1))
		}
	case 2: // short last block
		length -= int64(1 + st.Choice(chunkSize-1))
	case 3: // short last piece and short last block
		cut := int64(1 + st.Choice(int(ps)-1))
		length -= cut
	}
	if length <= 0 {
		length = 1
	}
	return Geometry{PieceSize: ps, Length: length, NPieces: int((length + ps - 1) / ps)}
}

func PieceHashes(content []byte, g Geometry) [][]byte {
	var out [][]byte
	for i := 0; i < g.NPieces; i++ {
		lo := int64(i) * g.PieceSize
		h := sha1.Sum(content[lo : lo+g.PieceLen(i)])
		out = append(out, h[:])
	}
	return out
}
