//go:build linux

package fuse

import "bazil.org/fuse/fs"

// SimRoot returns the root node of the file system, as fs.Serve obtains it;
// the simulator drives the node tree directly (no kernel mount).
func SimRoot() fs.Node {
	n, _ := filesystem(0).Root()
	return n
}
