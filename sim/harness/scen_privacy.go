package harness

import (
	"context"
	"encoding/binary"
	"errors"
	"fmt"
	"net"
	"net/http"
	"net/http/httptest"
	"net/url"
	"strings"
	"time"

	"github.com/jech/storrent/config"
	"github.com/jech/storrent/dht"
	"github.com/jech/storrent/hash"
	"github.com/jech/storrent/known"
	"github.com/jech/storrent/peer"
	"github.com/jech/storrent/tor"
	"github.com/jech/storrent/zzsim/refwire"
	"github.com/jech/storrent/zzsim/simrt"
)

// C18: privacy switches are honoured across every sequence of
// configuration changes.

func init() {
	Register(&Scenario{
		Name: "privacy", Knobs: true, Props: []string{"C18"}, CrashTo: "",
		Horizon: 30 * time.Hour, MaxSteps: 2000000, Weight: 1, Main: privacyMain,
	})
}

type confState struct {
	conf      peer.TorConf
	fromEpoch int // in force for everything initiated at an epoch >= this
	toEpoch   int // superseded for everything initiated at an epoch > this (-1: still in force)
}

type privEnv struct {
	rc      *RunCtx
	w       *World
	states  []confState
	proxied bool
}

// allowed: is there a configuration that may legitimately govern something
// initiated at epoch e which satisfies pred?  (The configuration last
// confirmed before the quiescent point that opened epoch e, and every
// configuration set since.)
func (e *privEnv) allowed(epoch int, pred func(peer.TorConf) bool) bool {
	for _, s := range e.states {
		if s.toEpoch >= 0 && s.toEpoch < epoch {
			continue // replaced before that epoch began
		}
		if pred(s.conf) {
			return true
		}
	}
	return false
}

func (e *privEnv) setConf(c peer.TorConf, returnedEpoch int) {
	if n := len(e.states); n > 0 {
		e.states[n-1].toEpoch = returnedEpoch
	}
	e.states = append(e.states, confState{conf: c, fromEpoch: returnedEpoch, toEpoch: -1})
}

func privacyMain(rc *RunCtx) {
	st := rc.St
	w := NewWorld(rc)
	defer w.Shutdown()
	// the whole configuration space is walked by run index
	cell := rc.Index % 24
	useTr, useWs := cell&1 != 0, cell&2 != 0
	mode := config.DhtMode(cell / 4 % 3)
	proxied := cell/12 == 1
	proxy := ""
	if proxied {
		proxy = "socks5://127.0.0.1:9050"
	}
	config.DefaultUseTrackers, config.DefaultUseWebseeds, config.DefaultDhtMode = useTr, useWs, mode
	w.SysIP6 = simrt.Pick(st, "", "2001:db8::7")
	// sometimes the first tier has a second tracker behind one that is slow and then fails
	twoInTier := st.Bool(1, 3)
	tiers := [][]string{{"http://tracker.example/announce"}, {"udp://utracker.example:6969/announce"}}
	if twoInTier {
		tiers = [][]string{{"http://slowtracker.example/announce", "http://tracker.example/announce"}, {"udp://utracker.example:6969/announce"}}
	}
	spec := GenTorSpec(st, SpecOpts{
		MaxPieces: 4, MultiFile: 1,
		Trackers: tiers,
		URLList:  []string{"http://ws.example/base/"},
	})
	env := &privEnv{rc: rc, w: w, proxied: proxied}
	env.setConf(peer.TorConf{DhtMode: mode, UseTrackers: useTr, UseWebseeds: useWs}, 0)
	rt := &refTracker{w: w, st: st, expect: map[string]bool{}, connIDs: map[uint64]bool{}}
	urt := &refTracker{w: w, st: st, expect: map[string]bool{}, connIDs: map[uint64]bool{}}
	rw := &refWeb{w: w, st: st, spec: spec}
	trackerContacts, webContacts := 0, 0
	w.HTTP["tracker.example"] = func(w *World, req *http.Request, rec *HTTPRec) (*http.Response, error) {
		trackerContacts++
		// an announce is judged by its first message: what belongs to an
		// announce already running when a switch was flipped is not judged
		if n := len(rt.contacts); (n == 0 || w.rc.S.Now()-rt.lastSeen > 150*time.Second) && !env.allowed(rec.Epoch, func(c peer.TorConf) bool { return c.UseTrackers }) {
			rc.Fail("C18", "tracker-contact", "http", "HTTP tracker contacted at epoch %d although tracker use has been off since before the last quiescent point (configurations: %v)", rec.Epoch, env.states)
		}
		if proxied {
			if ua := req.Header.Get("User-Agent"); strings.Contains(strings.ToLower(ua), "torrent") {
				rc.Fail("C18", "version-revealed", "http-tracker", "a proxied torrent told its tracker User-Agent: %s", ua)
			}
			if rec.Via != proxy {
				rc.Fail("C18", "proxy-bypass", "http-tracker", "a proxied torrent's tracker request went via %q", rec.Via)
			}
			if req.URL.Query().Get("port") != "" {
				rc.Fail("C18", "port-revealed", "http-tracker", "a proxied torrent told its tracker port=%s", req.URL.Query().Get("port"))
			}
		} else if rec.Via != "" {
			rc.Fail("C18", "proxy-spurious", "http-tracker", "an unproxied torrent's tracker request went via %q", rec.Via)
		}
		return rt.httpHandler(w, req, rec)
	}
	slowContacts := 0
	w.HTTP["slowtracker.example"] = func(w *World, req *http.Request, rec *HTTPRec) (*http.Response, error) {
		trackerContacts++
		slowContacts++
		if !env.allowed(rec.Epoch, func(c peer.TorConf) bool { return c.UseTrackers }) && slowContacts == 1 {
			rc.Fail("C18", "tracker-contact", "http-slow", "HTTP tracker contacted at epoch %d although tracker use has been off since before the last quiescent point", rec.Epoch)
		}
		// slow, then it fails
		simrt.Fault("tracker-slow-then-fails")
		simrt.Sleep(time.Duration(20+st.Choice(200)) * time.Second)
		if st.Bool(1, 2) {
			return nil, errors.New("simulated: connection timed out")
		}
		return MakeResponse(503, nil, w.Body(req.Context(), []byte("busy")), 4), nil
	}
	w.UDP["utracker.example:6969"] = func(w *World, c *udpConn, data []byte) []UDPReply {
		trackerContacts++
		if n := len(urt.contacts); (n == 0 || w.rc.S.Now()-urt.lastSeen > 150*time.Second) && !env.allowed(w.Epoch, func(c peer.TorConf) bool { return c.UseTrackers }) {
			rc.Fail("C18", "tracker-contact", "udp", "UDP tracker contacted at epoch %d although tracker use has been off since before the last quiescent point", w.Epoch)
		}
		if len(data) >= 98 && binary.BigEndian.Uint32(data[8:]) == 1 {
			port := binary.BigEndian.Uint16(data[96:])
			if proxied && port != 0 {
				rc.Fail("C18", "port-revealed", "udp-tracker", "a proxied torrent told its UDP tracker port %d", port)
			}
		}
		return urt.udpHandler(w, c, data)
	}
	w.HTTP["ws.example"] = func(w *World, req *http.Request, rec *HTTPRec) (*http.Response, error) {
		webContacts++
		if !env.allowed(rec.Epoch, func(c peer.TorConf) bool { return c.UseWebseeds }) {
			rc.Fail("C18", "webseed-contact", "", "web seed contacted at epoch %d although web-seed use has been off since before the last quiescent point (configurations: %v)", rec.Epoch, env.states)
		}
		if proxied && rec.Via != proxy {
			rc.Fail("C18", "proxy-bypass", "webseed", "a proxied torrent's web-seed request went via %q", rec.Via)
		}
		return rw.getright(w, req, rec)
	}
	dhtAnnounces := 0
	dht.SimOnAnnounce = func(r dht.SimAnnounceRec) {
		dhtAnnounces++
		ep := w.Epoch
		if !env.allowed(ep, func(c peer.TorConf) bool { return c.DhtMode > config.DhtNone }) {
			rc.Fail("C18", "dht-announce", "mode-none", "DHT announce at epoch %d although the DHT mode has been 'none' since before the last quiescent point", ep)
		}
		if r.Port != 0 {
			if proxied {
				rc.Fail("C18", "port-revealed", "dht-proxied", "a proxied torrent announced port %d to the DHT", r.Port)
			} else if !env.allowed(ep, func(c peer.TorConf) bool { return c.DhtMode >= config.DhtNormal }) {
				rc.Fail("C18", "port-revealed", "dht-passive", "DHT announce with port %d at epoch %d although the mode has not been 'normal' since before the last quiescent point", r.Port, ep)
			}
		}
	}
	t, err := w.AddTorrent(spec, false, proxy)
	if err != nil {
		rc.Fail("C18", "setup", "", "AddTorrent: %v", err)
		return
	}
	w.StartQuiescer(20 * time.Second)
	rc.SetSample("setup", fmt.Sprintf("cell %d: trackers=%v webseeds=%v dht=%v proxied=%v ipv6=%q", cell, useTr, useWs, mode, proxied, w.SysIP6))
	// demand that only a web seed could satisfy
	ctx, cancel := context.WithCancel(context.Background())
	defer cancel()
	simrt.GoNamed("reader", func() {
		r := t.NewReader(ctx, 0, spec.Geo.Length)
		defer r.Close()
		buf := make([]byte, 20000)
		for !w.stopped {
			n, err := r.Read(buf)
			if err != nil {
				return
			}
			if n == 0 {
				simrt.Sleep(500 * time.Millisecond)
			} else {
				simrt.Sleep(time.Duration(st.Choice(60)) * time.Second)
			}
		}
	})
	// peers: what the system tells them, and whether it accepts them
	var peers []*RefPeer
	for i := 0; i < 1+st.Choice(2); i++ {
		cfg := drawSeedCfg(st, fmt.Sprintf("peer%d", i), 7000+i)
		cfg.Ext, cfg.DHT = true, st.Bool(1, 2)
		cfg.Have = func(int) bool { return false }
		p := w.NewPeer(spec, cfg)
		peers = append(peers, p)
		if st.Bool(1, 2) {
			p.Connect() // an inbound attempt
		} else {
			t.AddKnown(p.Addr, nil, "", known.Tracker)
		}
	}
	if st.Bool(1, 2) {
		// a peer that holds everything, lets itself be asked and never
		// delivers, then leaves: requests are dropped while the switches
		// are what they are
		cfg := drawSeedCfg(st, "silent-holder", 7100)
		cfg.Ext = true
		cfg.AnswerWeights = []int{0, 0, 1, 0, 0, 0, 0, 0, 0, 0}
		cfg.UnchokeAfter = 0
		ph := w.NewPeer(spec, cfg)
		peers = append(peers, ph)
		if st.Bool(1, 2) {
			ph.Connect()
		} else {
			t.AddKnown(ph.Addr, nil, "", known.Tracker)
		}
		d := time.Duration(30+st.Choice(600)) * time.Second
		simrt.GoNamed("silent-holder-leaves", func() {
			simrt.Sleep(d)
			simrt.Fault("peer-disconnect")
			ph.Disconnect(st.Bool(1, 2))
		})
	}
	// dials must go through the proxy
	checkDials := func() {
		for _, d := range w.Dials {
			if d.Result == "ipv6-probe" || d.Result == "no-ipv6" {
				if proxied {
					rc.Fail("C18", "ipv6-probed", "", "a proxied torrent probed the local IPv6 address")
				}
				continue
			}
			if proxied && d.Via != proxy {
				rc.Fail("C18", "proxy-bypass", "dial-"+d.Network, "a proxied torrent dialled %s %s via %q", d.Network, d.Addr, d.Via)
			}
			if !proxied && d.Via != "" {
				rc.Fail("C18", "proxy-spurious", "dial", "an unproxied torrent dialled %s via %q", d.Addr, d.Via)
			}
		}
	}
	// the history of configuration changes
	nchanges := st.Choice(7)
	for k := 0; k < nchanges && !rc.Failed(); k++ {
		simrt.Sleep(time.Duration(simrt.Pick(st, 30, 1, 300, 1200, 1800, 3600)) * time.Second)
		c := peer.TorConf{DhtMode: config.DhtMode(st.Choice(3)), UseTrackers: st.Bool(1, 2), UseWebseeds: st.Bool(1, 2)}
		simrt.Fault("configuration-change")
		// from now on either configuration may govern what is initiated
		// (until a quiescent point has followed the call's return)
		env.setConf(c, w.Epoch)
		if st.Bool(1, 2) {
			if err := t.SetConf(c); err != nil {
				rc.Fail("C18", "setconf", "", "SetConf: %v", err)
				return
			}
		} else {
			v := url.Values{"q": {"set-torrent"}, "hash": {fmt.Sprintf("%x", spec.InfoHash)}, "dht-mode": {c.DhtMode.String()}}
			if c.UseTrackers {
				v.Set("use-trackers", "on")
			}
			if c.UseWebseeds {
				v.Set("use-webseeds", "on")
			}
			req := httptest.NewRequest("POST", "http://localhost:8088/?"+v.Encode(), nil)
			req.Host = "localhost:8088"
			rec := httptest.NewRecorder()
			http.DefaultServeMux.ServeHTTP(rec, req)
			if rec.Code != http.StatusSeeOther {
				rc.Fail("C18", "setconf", "http", "set-torrent returned %d: %s", rec.Code, rec.Body.String())
				return
			}
		}
		env.states[len(env.states)-2].toEpoch = w.Epoch
		env.states[len(env.states)-1].fromEpoch = w.Epoch
		rc.Tracef("configuration -> trackers=%v webseeds=%v dht=%v (epoch %d)", c.UseTrackers, c.UseWebseeds, c.DhtMode, w.Epoch)
		got, err := t.GetConf()
		if err != nil || got != c {
			rc.Fail("C18", "getconf", "", "GetConf after SetConf(%+v) = %+v, %v", c, got, err)
		}
		if st.Bool(1, 3) {
			// the DHT machinery asks for an announce (rundht does, periodically)
			tor.Announce(hash.Hash(spec.InfoHash), st.Bool(1, 2))
		}
	}
	simrt.Sleep(time.Duration(simrt.Pick(st, 120, 1900, 4000)) * time.Second)
	checkDials()
	if trackerContacts+webContacts+dhtAnnounces > 0 {
		rc.Progress()
	}
	simrt.Probe(fmt.Sprintf("cell-%02d", cell))
	// what peers were told / whether they got in
	for _, p := range peers {
		if proxied && p.RepliesToOurHandshake > 0 {
			rc.Fail("C18", "incoming-answered", "", "a proxied torrent answered the handshake of an incoming connection (from %s) with its own: info-hash and peer id, sent from its real address", p.Cfg.Name)
		}
		if proxied && p.Inbound && p.Ready {
			rc.Fail("C18", "incoming-accepted", "", "a proxied torrent accepted the incoming connection of %s", p.Cfg.Name)
		}
		if proxied {
			// every extended handshake, not only the latest one
			for k, h := range p.SysExtAll {
				if h.HasV || h.HasP || h.IPv6 != nil {
					rc.Fail("C18", "handshake-reveals", "", "extended handshake %d of %d that a proxied torrent sent to %s carries v=%q p=%d ipv6=%x", k+1, len(p.SysExtAll), p.Cfg.Name, h.V, h.P, h.IPv6)
					break
				}
			}
		}
		if p.SysExt == nil {
			continue
		}
		if proxied {
			if p.SysExt.HasV || p.SysExt.HasP || p.SysExt.IPv6 != nil {
				rc.Fail("C18", "handshake-reveals", "", "a proxied torrent's extended handshake carries v=%q p=%d ipv6=%x", p.SysExt.V, p.SysExt.P, p.SysExt.IPv6)
			}
			for _, m := range p.Recv {
				if _, ok := m.Msg.(refwire.Port); ok {
					rc.Fail("C18", "port-revealed", "port-message", "a proxied torrent sent a port message to %s", p.Cfg.Name)
				}
			}
		} else if w.SysIP6 != "" && p.SysExt.IPv6 != nil && !net.IP(p.SysExt.IPv6).Equal(net.ParseIP(w.SysIP6)) {
			rc.Fail("C18", "handshake-ipv6", "", "the extended handshake carries ipv6=%x, the machine's address is %s", p.SysExt.IPv6, w.SysIP6)
		}
	}
}
