package tracker

import "time"

// SimBase exposes the scheduling fields of a tracker to the oracles.
func SimBase(t Tracker) (tm time.Time, interval time.Duration, locked bool) {
	switch x := t.(type) {
	case *HTTP:
		return x.time, x.interval, x.locked != 0
	case *UDP:
		return x.time, x.interval, x.locked != 0
	}
	return
}
