// simcheck is the single executable of the simulator: manager, worker,
// replayer.  It is built from a rewritten scratch copy of /repo by
// /verif/check.
//
//go:debug asynctimerchan=0
package main

import (
	"encoding/json"
	"flag"
	"fmt"
	"os"
	"strconv"
	"time"

	"github.com/jech/storrent/zzsim/harness"
)

func main() {
	if len(os.Args) < 2 {
		fmt.Fprintln(os.Stderr, "usage: simcheck check|work|replay|replay-server|selfrun|list ...")
		os.Exit(2)
	}
	cmd := os.Args[1]
	fs := flag.NewFlagSet(cmd, flag.ExitOnError)
	switch cmd {
	case "check":
		var o harness.CheckOpts
		var seed string
		var budget time.Duration
		fs.StringVar(&o.Prop, "prop", "", "property id")
		fs.StringVar(&o.Tier, "tier", "quick", "quick|thorough")
		fs.StringVar(&seed, "seed", "1", "base seed")
		fs.DurationVar(&budget, "budget", 60*time.Second, "exploration wall-clock budget")
		fs.IntVar(&o.Workers, "workers", 0, "worker processes (0: one per CPU)")
		fs.IntVar(&o.Batch, "batch", 0, "runs per worker process")
		fs.StringVar(&o.Evidence, "evidence", "", "evidence file to write")
		fs.StringVar(&o.Replays, "replays", "", "directory for replay files")
		fs.StringVar(&o.Known, "known", "", "known-findings file")
		fs.StringVar(&o.VerifDir, "verif", "/verif", "verif directory")
		fs.StringVar(&o.Tree, "tree", "", "tree identification")
		fs.IntVar(&o.MemLimitKB, "memkb", 8*1024*1024, "ulimit -v per worker, KiB")
		fs.DurationVar(&o.ShrinkBudget, "shrink", 60*time.Second, "shrinking budget")
		fs.Parse(os.Args[2:])
		s, err := strconv.ParseUint(seed, 10, 64)
		if err != nil {
			if i, err2 := strconv.ParseInt(seed, 10, 64); err2 == nil {
				s = uint64(i)
			} else {
				fmt.Fprintln(os.Stderr, "bad seed:", seed)
				os.Exit(2)
			}
		}
		o.Seed = s
		o.Budget = budget
		o.Self, _ = os.Executable()
		os.Exit(harness.Check(o))
	case "work":
		scen := fs.String("scen", "", "scenario")
		base := fs.Uint64("base", 1, "base seed")
		from := fs.Int("from", 0, "first run index")
		n := fs.Int("n", 1, "number of runs")
		tier := fs.String("tier", "quick", "tier")
		logs := fs.Int("log", 0, "log lines kept per run")
		keep := fs.Bool("keep", false, "report every run in full")
		fs.Parse(os.Args[2:])
		if err := harness.Work(os.Stdout, *scen, *base, *from, *n, *tier, *logs, *keep); err != nil {
			fmt.Fprintln(os.Stderr, err)
			os.Exit(2)
		}
	case "replay":
		file := fs.String("file", "", "replay file")
		quiet := fs.Bool("quiet", false, "print only the verdict")
		logs := fs.Int("log", 0, "log lines kept")
		fs.Parse(os.Args[2:])
		b, err := os.ReadFile(*file)
		if err != nil {
			fmt.Fprintln(os.Stderr, err)
			os.Exit(2)
		}
		var rf harness.ReplayFile
		if err := json.Unmarshal(b, &rf); err != nil {
			fmt.Fprintln(os.Stderr, err)
			os.Exit(2)
		}
		res, err := harness.Replay(&rf, *logs)
		if err != nil {
			fmt.Fprintln(os.Stderr, err)
			os.Exit(2)
		}
		hit := false
		for _, v := range res.Viol {
			if v.Prop == rf.Property && v.Oracle == rf.Oracle && v.Class == rf.Class {
				hit = true
			}
		}
		if !*quiet {
			for _, l := range res.Trace {
				fmt.Println(l)
			}
			for _, l := range res.Logs {
				fmt.Println("  log:", l)
			}
			for _, g := range res.Leftover {
				fmt.Printf("  goroutine left: %s\n", g)
			}
			for _, v := range res.Viol {
				fmt.Printf("violation %s: %s\n", v.Key(), v.Detail)
			}
			fmt.Printf("steps=%d sim=%v choices=%d sched-hash=%016x end=%q\n", res.Stats.Steps, res.Stats.SimTime, res.NChoices, res.Stats.SchedHash, res.Stats.EndReason)
		}
		if hit {
			fmt.Printf("REPRODUCED property=%s oracle=%s class=%s\n", rf.Property, rf.Oracle, rf.Class)
			os.Exit(1)
		}
		fmt.Println("NOT-REPRODUCED")
		os.Exit(0)
	case "replay-server":
		harness.ReplayServer(os.Stdin, os.Stdout)
	case "list":
		harness.List(os.Stdout)
	default:
		fmt.Fprintln(os.Stderr, "unknown command", cmd)
		os.Exit(2)
	}
}
