package harness

import (
	"context"
	"fmt"
	"github.com/jech/storrent/zzsim/refwire"
	"time"

	"github.com/jech/storrent/config"
	"github.com/jech/storrent/known"
	"github.com/jech/storrent/tor"
	"github.com/jech/storrent/zzsim/simnet"
	"github.com/jech/storrent/zzsim/simrt"
)

// C09: conservation of the scheduler's bookkeeping (availability and
// in-flight counters) under arbitrary peer behaviour.

func init() {
	Register(&Scenario{
		Name: "bookkeeping", Knobs: true, Props: []string{"C09"}, CrashTo: "C05", Also: map[string]int{"C05": 1}, // peers answer with over-long, misplaced, empty, corrupt blocks
		Horizon: 3 * time.Hour, MaxSteps: 1500000, Weight: 3, Main: bookMain,
		NontrivialNeedsFault: true,
	})
}

// checkBookkeeping compares, at a quiescent point, the torrent's counters
// with the real peer objects and with what the reference peers advertised.
func checkBookkeeping(rc *RunCtx, w *World, t *tor.Torrent, spec *TorSpec, when string, fetches int) bool {
	peers := t.SimPeers()
	avail := t.SimAvailable()
	inflight := t.SimInFlight()
	np := spec.Geo.NPieces
	ok := true
	// availability against the peer objects' bitmaps
	for i := 0; i < max(np, len(avail)); i++ {
		n := 0
		for _, p := range peers {
			if p.SimBitmap().Get(i) {
				n++
			}
		}
		a := 0
		if i < len(avail) {
			a = int(avail[i])
		}
		if a != n {
			rc.Fail("C09", "availability", when, "piece %d: the torrent counts %d peers, %d registered peers advertise it (%s)", i, a, n, when)
			ok = false
			break
		}
	}
	// the peer objects' bitmaps against what the reference peers advertised
	for _, p := range peers {
		var rp *RefPeer
		for _, q := range w.Peers {
			if q.conn != nil && !q.Closed && string(q.ID) == string(p.Id) {
				rp = q
			}
		}
		if rp == nil || !rp.Ready || rp.Cfg.OnMessage != nil || rp.rawAdvertised || rp.Cfg.Advertise == 3 {
			continue
		}
		if !p.SimHasInfo() {
			continue // (magnet link: a have-all cannot be spelt out before the piece count is known)
		}
		bm := p.SimBitmap()
		for i := 0; i < np; i++ {
			if bm.Get(i) != rp.Have[i] {
				rc.Fail("C09", "advertised", when, "%s advertises piece %d = %v, the system's peer object has %v (%s)", rp.Cfg.Name, i, rp.Have[i], bm.Get(i), when)
				ok = false
				break
			}
		}
	}
	// in-flight against the peers' request queues
	count := make([]int, len(inflight))
	for _, p := range peers {
		q, r := p.SimRequests()
		for _, c := range append(q, r...) {
			if int(c) < len(count) {
				count[c]++
			} else {
				rc.Fail("C09", "inflight", "out-of-range", "a peer holds a request for chunk %d; the torrent has %d chunks", c, len(count))
				ok = false
			}
		}
	}
	if fetches == 0 {
		for c := range inflight {
			if int(inflight[c]) != count[c] {
				cpp := spec.ChunksPerPiece()
				class := when
				if c == len(inflight)-1 && spec.Geo.Length%chunkSize != 0 {
					class += "-short-last-block"
				}
				rc.Fail("C09", "inflight", class, "chunk %d (piece %d block %d): the torrent counts %d in flight, %d requests are queued or outstanding at registered peers (%s)", c, c/cpp, c%cpp, inflight[c], count[c], when)
				ok = false
				break
			}
		}
	}
	return ok
}

func drawBookPeer(st *simrt.Stream, spec *TorSpec, name string, port int) PeerCfg {
	np := spec.Geo.NPieces
	haveMode := st.Weighted(3, 2, 1)
	mask := make([]bool, np)
	for i := range mask {
		switch haveMode {
		case 0:
			mask[i] = true
		case 1:
			mask[i] = st.Bool(1, 2)
		}
	}
	cfg := PeerCfg{
		Name: name, Port: port, Fast: st.Bool(1, 2), Ext: st.Bool(2, 3), DHT: st.Bool(1, 4),
		MSE: st.Bool(1, 4), Have: func(i int) bool { return mask[i] }, Advertise: DrawAdvertise(st),
		Reqq: simrt.Pick(st, -1, 250, 4, 2, 1), MetadataSize: -1,
		UnchokeAfter: time.Duration(st.Choice(4)) * time.Second,
	}
	if st.Bool(1, 2) {
		cfg.ExtP = port
	}
	switch st.Weighted(3, 3, 2) {
	case 0: // honest
	case 1: // mixed answers
		cfg.AnswerWeights = []int{6, 1, 1, 1, 1, 1, 1, 1, 1, 1}
	case 2: // mostly trouble
		cfg.AnswerWeights = []int{2, 2, 2, 2, 2, 2, 2, 1, 2, 1}
	}
	if st.Bool(1, 4) {
		cfg.LeaveAfterHandshake = 3
	}
	maxDelay := simrt.Pick(st, 30, 0, 500, 3000)
	cfg.AnswerDelay = func() time.Duration { return time.Duration(st.Choice(maxDelay+1)) * time.Millisecond }
	if cfg.Fast && st.Bool(1, 3) {
		for k := st.Choice(3) + 1; k > 0; k-- {
			cfg.AllowedFast = append(cfg.AllowedFast, spec.DrawPiece(st))
		}
	}
	return cfg
}

func bookMain(rc *RunCtx) {
	st := rc.St
	w := NewWorld(rc)
	defer w.Shutdown()
	spec := GenTorSpec(st, SpecOpts{MaxPieces: 8, Big: st.Bool(1, 6), MultiFile: 1, Huge: true})
	config.PrefetchRate = float64(simrt.Pick(st, 0, 65536, 768*1024))
	config.SetIdleRate(uint32(simrt.Pick(st, 65536, 0, 16384, 1<<20)))
	// one run in six starts from a magnet link: peers advertise before the
	// metadata (which they serve) is known
	magnet := !spec.Sparse && st.Bool(1, 6)
	t, err := w.AddTorrent(spec, magnet, "")
	if err != nil {
		rc.Fail("C09", "setup", "", "AddTorrent: %v", err)
		return
	}
	if magnet {
		simrt.Probe("torrent-from-magnet-link")
	}
	w.Link = func() (simnet.LinkCfg, simnet.LinkCfg) { return drawSysLink(st) }
	npeers := 1 + st.Choice(5)
	for i := 0; i < npeers; i++ {
		p := w.NewPeer(spec, drawBookPeer(st, spec, fmt.Sprintf("peer%d", i), 7000+i))
		if st.Bool(1, 2) {
			p.Connect()
		} else {
			t.AddKnown(p.Addr, nil, "", known.Tracker)
		}
	}
	rc.SetSample("torrent", fmt.Sprintf("piece=%dK pieces=%d length=%d (last block %d bytes) prefetch=%v idle=%d peers=%d", spec.Geo.PieceSize>>10, spec.Geo.NPieces, spec.Geo.Length, spec.Geo.Length%chunkSize, config.PrefetchRate, config.IdleRate(), npeers))
	// demand
	ctx, cancel := context.WithCancel(context.Background())
	defer cancel()
	nreaders := st.Choice(3)
	for u := 0; u < nreaders; u++ {
		off := spec.DrawOffset(st)
		simrt.GoNamed(fmt.Sprintf("reader%d", u), func() {
			// (front-ends open readers only on torrents whose metadata is known)
			for !t.InfoComplete() {
				if w.stopped {
					return
				}
				simrt.Sleep(time.Second)
			}
			r := t.NewReader(ctx, off, spec.Geo.Length-off)
			defer r.Close()
			buf := make([]byte, 40000)
			for !w.stopped {
				n, err := r.Read(buf)
				if err != nil {
					return
				}
				if n == 0 {
					simrt.Sleep(50 * time.Millisecond)
				} else {
					rc.Progress()
					simrt.Sleep(time.Duration(st.Choice(2000)) * time.Millisecond)
				}
			}
		})
	}
	// the history: things happen, and at quiescent points the books are checked
	nsteps := 3 + st.Choice(12)
	for k := 0; k < nsteps && !rc.Failed(); k++ {
		simrt.Sleep(time.Duration(200+st.Choice(8000)) * time.Millisecond)
		live := []*RefPeer{}
		for _, p := range w.Peers {
			if p.Ready && !p.Closed {
				live = append(live, p)
			}
		}
		switch ev := st.Weighted(4, 2, 2, 2, 2, 2, 1, 1, 1); {
		case ev == 8 && len(live) > 0:
			// a peer that announces its pieces all over again, another way
			p := live[st.Choice(len(live))]
			simrt.Fault("peer-advertises-again")
			all := true
			for _, h := range p.Have {
				all = all && h
			}
			switch {
			case all && p.Cfg.Fast && p.SysHS.Fast() && st.Bool(1, 2):
				rc.Tracef("%s sends have-all again", p.Cfg.Name)
				p.Send(refwire.HaveAll{})
			default:
				rc.Tracef("%s sends its bitfield again", p.Cfg.Name)
				p.Send(refwire.Bitfield{Bits: p.bitfield()})
			}
			p.noteAdvertised()
		case ev == 1 && len(live) > 0:
			p := live[st.Choice(len(live))]
			simrt.Fault("peer-disconnect")
			rc.Tracef("%s disconnects", p.Cfg.Name)
			p.Disconnect(st.Bool(1, 2))
		case ev == 2 && len(live) > 0:
			p := live[st.Choice(len(live))]
			if p.ChokingSys {
				p.Unchoke()
			} else {
				simrt.Fault("peer-chokes")
				rc.Tracef("%s chokes", p.Cfg.Name)
				p.Choke()
			}
		case ev == 3 && len(live) > 0:
			p := live[st.Choice(len(live))]
			i := spec.DrawPiece(st)
			simrt.Fault("advertisement-changes")
			rc.Tracef("%s: have(%d)=%v", p.Cfg.Name, i, !p.Have[i])
			p.SetHave(i, !p.Have[i])
		case ev == 4 && len(live) > 0:
			// repeated / redundant advertisement
			p := live[st.Choice(len(live))]
			i := spec.DrawPiece(st)
			if p.Have[i] {
				simrt.Fault("redundant-have")
				p.SetHave(i, true)
			}
		case ev == 5:
			// a closed peer comes back
			for _, p := range w.Peers {
				if p.Closed || p.conn == nil {
					rc.Tracef("%s reconnects", p.Cfg.Name)
					simrt.Probe("peer-reconnects")
					p.Connect()
					break
				}
			}
		case ev == 6:
			simrt.Fault("evict-all")
			t.Pieces.Expire(0, nil, func(i uint32) { t.Have(i, false) })
		case ev == 7:
			// a long silence: request expiry (30 s) and cancels run
			simrt.Sleep(time.Duration(20+st.Choice(60)) * time.Second)
		}
		if st.Bool(2, 3) {
			if w.AwaitQuiet(20 * time.Second) {
				checkBookkeeping(rc, w, t, spec, "during", 0)
			} else {
				simrt.Probe("no-quiescent-point")
			}
		}
	}
	if rc.Failed() {
		return
	}
	// everybody leaves: the books must be all zero
	cancel()
	for k := range w.Listeners {
		delete(w.Listeners, k) // nobody accepts connections any more
	}
	for _, p := range w.Peers {
		p.Disconnect(false)
	}
	simrt.Sleep(45 * time.Second)
	if w.AwaitQuiet(2 * time.Minute) {
		if n := len(t.SimPeers()); n != 0 {
			rc.Fail("C09", "registered", "after-all-left", "%d peers still registered 45 s after every connection was closed", n)
		}
		checkBookkeeping(rc, w, t, spec, "after-all-left", 0)
	} else {
		simrt.Probe("no-final-quiescent-point")
		if w.LoopStuck(t) {
			rc.Fail("C05", "event-loop-stuck", "", "two minutes after every peer has left the torrent's event loop does not answer a status query any more (%d events queued): handling some event never terminated", t.SimEventLen())
		}
	}
}
