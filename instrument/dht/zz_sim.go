package dht

import (
	"net/netip"
	"sync"
)

// Observation of the two calls storrent makes into the DHT library.
type SimAnnounceRec struct {
	Hash [20]byte
	IPv6 bool
	Port uint16
}

var simMu sync.Mutex
var SimAnnounces []SimAnnounceRec
var SimPings []netip.AddrPort
var SimOnAnnounce func(SimAnnounceRec)

func SimAnnounce(id []byte, ipv6 bool, port uint16) error {
	var r SimAnnounceRec
	copy(r.Hash[:], id)
	r.IPv6 = ipv6
	r.Port = port
	simMu.Lock()
	SimAnnounces = append(SimAnnounces, r)
	f := SimOnAnnounce
	simMu.Unlock()
	if f != nil {
		f(r)
	}
	return Announce(id, ipv6, port)
}

func SimPing(addr netip.AddrPort) error {
	simMu.Lock()
	SimPings = append(SimPings, addr)
	simMu.Unlock()
	return Ping(addr)
}

func SimReset() {
	simMu.Lock()
	SimAnnounces = nil
	SimPings = nil
	SimOnAnnounce = nil
	simMu.Unlock()
}
