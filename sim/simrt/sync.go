package simrt

import (
	"cmp"
	"fmt"
	"slices"
	"sync"
)

// Locks.  A goroutine of a run never blocks on a sync.Mutex inside the
// runtime (the bubble could not see through that): it tries the lock and,
// if it is taken, parks until somebody releases it.

func Lock(site int32, m *sync.Mutex) {
	s := cur.Load()
	var g *G
	if s != nil {
		g = s.self()
	}
	if g == nil {
		m.Lock()
		return
	}
	s.yield(g, site)
	for !m.TryLock() {
		Probe("lock-contended")
		s.park(g, gWaitLock, m)
	}
}

func Unlock(m *sync.Mutex) {
	m.Unlock()
	wakeLock(m)
	Y(siteUnlock)
}

func WLock(site int32, m *sync.RWMutex) {
	s := cur.Load()
	var g *G
	if s != nil {
		g = s.self()
	}
	if g == nil {
		m.Lock()
		return
	}
	s.yield(g, site)
	for !m.TryLock() {
		Probe("lock-contended")
		s.park(g, gWaitLock, m)
	}
}

func WUnlock(m *sync.RWMutex) {
	m.Unlock()
	wakeLock(m)
	Y(siteUnlock)
}

func RLock(site int32, m *sync.RWMutex) {
	s := cur.Load()
	var g *G
	if s != nil {
		g = s.self()
	}
	if g == nil {
		m.RLock()
		return
	}
	s.yield(g, site)
	for !m.TryRLock() {
		Probe("lock-contended")
		s.park(g, gWaitLock, m)
	}
}

func RUnlock(m *sync.RWMutex) {
	m.RUnlock()
	wakeLock(m)
	Y(siteUnlock)
}

// siteUnlock marks the preemption point that follows every unlock: code that
// goes on to touch shared state after releasing its lock is exactly what a
// schedule must be able to interrupt.
const siteUnlock = -2

func wakeLock(m any) {
	s := cur.Load()
	if s == nil || !runtime_simInBubble() {
		return
	}
	s.mu.Lock()
	for _, g := range s.gs {
		if g.state == gWaitLock && g.waitOn == m {
			s.makeRunnable(g)
		}
	}
	s.mu.Unlock()
}

// Recv is `<-ch` with a yield on both sides.
func Recv[T any](site int32, ch <-chan T) T {
	Y(site)
	v := <-ch
	Y(site)
	return v
}

// Recv2 is `v, ok := <-ch` with a yield on both sides.
func Recv2[T any](site int32, ch <-chan T) (T, bool) {
	Y(site)
	v, ok := <-ch
	Y(site)
	return v, ok
}

// MapKeys returns the keys of m in a deterministic order (sorted), then
// permuted by the choice stream when the run's policy asks for it.
func MapKeys[M ~map[K]V, K comparable, V any](m M) []K {
	keys := make([]K, 0, len(m))
	for k := range m {
		keys = append(keys, k)
	}
	sortKeys(keys)
	if s := cur.Load(); s != nil && runtime_simInBubble() && len(keys) > 1 && s.MapShuffle {
		for i := len(keys) - 1; i > 0; i-- {
			j := i - s.St.Choice(i+1) // 0 keeps the element in place
			keys[i], keys[j] = keys[j], keys[i]
		}
	}
	return keys
}

func sortKeys[K comparable](keys []K) {
	switch ks := any(keys).(type) {
	case []int:
		slices.Sort(ks)
	case []uint32:
		slices.Sort(ks)
	case []uint64:
		slices.Sort(ks)
	case []string:
		slices.Sort(ks)
	default:
		strs := make(map[K]string, len(keys))
		for _, k := range keys {
			strs[k] = fmt.Sprintf("%v", k)
		}
		slices.SortStableFunc(keys, func(a, b K) int { return cmp.Compare(strs[a], strs[b]) })
	}
}

// SyncMapRange replaces (*sync.Map).Range: it walks a snapshot in a
// deterministic order (the original promises no consistent snapshot).
func SyncMapRange(m *sync.Map, f func(k, v any) bool) {
	if !Active() {
		m.Range(f)
		return
	}
	type kv struct {
		k, v any
		s    string
	}
	var all []kv
	m.Range(func(k, v any) bool {
		all = append(all, kv{k, v, fmt.Sprintf("%v", k)})
		return true
	})
	slices.SortStableFunc(all, func(a, b kv) int { return cmp.Compare(a.s, b.s) })
	if s := cur.Load(); s != nil && s.MapShuffle {
		for i := len(all) - 1; i > 0; i-- {
			j := i - s.St.Choice(i+1)
			all[i], all[j] = all[j], all[i]
		}
	}
	for _, e := range all {
		if v, ok := m.Load(e.k); ok {
			if !f(e.k, v) {
				return
			}
		}
	}
}

// OnceDo replaces (*sync.Once).Do for code under test: the original holds
// a mutex while f runs, and f may park at a yield.
type onceState struct {
	done    bool
	running bool
	q       WaitQ
}

var onceMu sync.Mutex
var onces = map[*sync.Once]*onceState{}

func OnceDo(o *sync.Once, f func()) {
	if !Active() {
		o.Do(f)
		return
	}
	onceMu.Lock()
	st := onces[o]
	if st == nil {
		st = &onceState{}
		onces[o] = st
	}
	onceMu.Unlock()
	for {
		if st.done {
			return
		}
		if !st.running {
			st.running = true
			defer func() {
				st.done = true
				st.running = false
				st.q.Wake()
				o.Do(func() {})
			}()
			f()
			return
		}
		st.q.Wait(0)
	}
}

// ResetOnces forgets per-Once state between runs.
func ResetOnces() {
	onceMu.Lock()
	onces = map[*sync.Once]*onceState{}
	onceMu.Unlock()
}
