package harness

import (
	"crypto/sha1"
	"fmt"

	"github.com/jech/storrent/zzsim/refwire"
	"github.com/jech/storrent/zzsim/simrt"
)

// Generated torrents: ground-truth content, geometry, file table and
// metainfo, encoded with the reference bencoder.

type FileSpec struct {
	Path   []string
	Length int64
	Offset int64
	Pad    bool
}

type TorSpec struct {
	Geo       Geometry
	Key       uint64
	Content   []byte
	Hashes    [][]byte
	Name      string
	Files     []FileSpec // nil: single file
	Info      []byte
	InfoHash  []byte
	Trackers  [][]string
	URLList   []string
	HTTPSeeds []string
	Torrent   []byte
}

type SpecOpts struct {
	MaxPieces int
	Big       bool
	MultiFile int // 0: drawn; 1: never; 2: always
	Name      string
	Trackers  [][]string
	URLList   []string
	HTTPSeeds []string
	FileNames func(i int) []string
	// PieceCounts, if set, is the list the piece count is drawn from
	PieceCounts []int
}

func GenTorSpec(st *simrt.Stream, o SpecOpts) *TorSpec {
	if o.MaxPieces == 0 {
		o.MaxPieces = 8
	}
	s := &TorSpec{Trackers: o.Trackers, URLList: o.URLList, HTTPSeeds: o.HTTPSeeds}
	s.Geo = DrawGeometry(st, o.MaxPieces, o.Big)
	if len(o.PieceCounts) > 0 {
		n := o.PieceCounts[st.Choice(len(o.PieceCounts))]
		g := s.Geo
		last := g.PieceLen(g.NPieces - 1)
		g.NPieces = n
		g.Length = int64(n-1)*g.PieceSize + last
		s.Geo = g
	}
	s.Key = uint64(7000 + st.Choice(1<<20)*8)
	s.Content = MakeContent(s.Key, s.Geo.Length)
	s.Hashes = PieceHashes(s.Content, s.Geo)
	s.Name = o.Name
	if s.Name == "" {
		s.Name = fmt.Sprintf("torrent-%d", st.Choice(1000))
	}
	multi := o.MultiFile == 2 || (o.MultiFile == 0 && st.Bool(1, 2))
	if multi {
		s.Files = genFiles(st, s.Geo.Length, o.FileNames)
		// padding files hold zeros (BEP 47): clients synthesise them
		for _, f := range s.Files {
			if f.Pad {
				for i := f.Offset; i < f.Offset+f.Length; i++ {
					s.Content[i] = 0
				}
			}
		}
		s.Hashes = PieceHashes(s.Content, s.Geo)
	}
	s.encode()
	return s
}

func genFiles(st *simrt.Stream, total int64, names func(int) []string) []FileSpec {
	var fs []FileSpec
	remain := total
	n := 1 + st.Choice(6)
	for i := 0; remain > 0; i++ {
		var l int64
		switch {
		case i >= n-1:
			l = remain
		default:
			switch st.Weighted(4, 2, 2, 1) {
			case 0:
				l = 1 + int64(st.Choice(int(min(remain, 200000))))
			case 1:
				l = 1 + int64(st.Choice(int(min(remain, 5000)))) // shorter than a block
			case 2:
				l = 16384 * int64(1+st.Choice(4))
			default:
				l = 0 // empty file
			}
		}
		if l > remain {
			l = remain
		}
		pad := l > 0 && l < remain && st.Bool(1, 5)
		path := []string{fmt.Sprintf("file%d.dat", i)}
		if names != nil {
			path = names(i)
		} else if st.Bool(1, 3) {
			path = []string{fmt.Sprintf("dir%d", st.Choice(2)), fmt.Sprintf("file%d.dat", i)}
		}
		if pad {
			path = []string{".pad", fmt.Sprintf("%d-%d", i, l)} // unique
		}
		fs = append(fs, FileSpec{Path: path, Length: l, Pad: pad})
		remain -= l
	}
	off := int64(0)
	for i := range fs {
		fs[i].Offset = off
		off += fs[i].Length
	}
	return fs
}

func (s *TorSpec) encode() {
	info := map[string]any{
		"name":         s.Name,
		"piece length": s.Geo.PieceSize,
	}
	var pieces []byte
	for _, h := range s.Hashes {
		pieces = append(pieces, h...)
	}
	info["pieces"] = pieces
	if s.Files == nil {
		info["length"] = s.Geo.Length
	} else {
		var fl []any
		for _, f := range s.Files {
			var p []any
			for _, c := range f.Path {
				p = append(p, c)
			}
			d := map[string]any{"length": f.Length, "path": p}
			if f.Pad {
				d["attr"] = "p"
			}
			fl = append(fl, d)
		}
		info["files"] = fl
	}
	s.Info = refwire.BEncode(info)
	h := sha1.Sum(s.Info)
	s.InfoHash = h[:]
	s.Torrent = s.encodeTorrent(s.Info)
}

func (s *TorSpec) encodeTorrent(info []byte) []byte {
	// the info dictionary is spliced in verbatim
	out := []byte("d")
	add := func(k string, v []byte) {
		out = append(out, refwire.BEncode(k)...)
		out = append(out, v...)
	}
	if len(s.Trackers) > 0 && len(s.Trackers[0]) > 0 {
		add("announce", refwire.BEncode(s.Trackers[0][0]))
	}
	if len(s.Trackers) > 1 || (len(s.Trackers) == 1 && len(s.Trackers[0]) > 1) {
		var tiers []any
		for _, t := range s.Trackers {
			var tier []any
			for _, u := range t {
				tier = append(tier, u)
			}
			tiers = append(tiers, tier)
		}
		add("announce-list", refwire.BEncode(tiers))
	}
	if len(s.HTTPSeeds) > 0 {
		var l []any
		for _, u := range s.HTTPSeeds {
			l = append(l, u)
		}
		add("httpseeds", refwire.BEncode(l))
	}
	add("info", info)
	if len(s.URLList) > 0 {
		var l []any
		for _, u := range s.URLList {
			l = append(l, u)
		}
		add("url-list", refwire.BEncode(l))
	}
	return append(out, 'e')
}

// Piece returns the true bytes of a piece.
func (s *TorSpec) Piece(i int) []byte {
	lo := int64(i) * s.Geo.PieceSize
	return s.Content[lo : lo+s.Geo.PieceLen(i)]
}

// Block returns the true bytes of (piece, begin, length), clipped to the piece.
func (s *TorSpec) Block(i int, begin, length int64) []byte {
	p := s.Piece(i)
	if begin >= int64(len(p)) {
		return nil
	}
	end := begin + length
	if end > int64(len(p)) {
		end = int64(len(p))
	}
	return p[begin:end]
}

// NChunks is the number of 16 KiB blocks of the torrent; chunk indexes are
// storrent's: piece * (pieceSize/16K) + block.
func (s *TorSpec) ChunksPerPiece() int { return int(s.Geo.PieceSize / chunkSize) }

func (s *TorSpec) MagnetURI() string {
	return fmt.Sprintf("magnet:?xt=urn:btih:%x", s.InfoHash)
}
