package simrt

import (
	"crypto/sha1"
	"context"
	"errors"
	"fmt"
	"io"
	"log"
	mrand "math/rand/v2"
	"net"
	"net/http"
	"net/url"
	"runtime"
	"sync"
	"syscall"
	"time"

	"golang.org/x/net/proxy"
	"golang.org/x/sys/unix"
)

// Call substitutions (rule R3 of the rewriter).  Outside a run every
// function here behaves exactly like the call it replaces.

// World is implemented by the harness: it is everything outside the
// process under test.
type World interface {
	// Dial is every outgoing stream/datagram connection.  via is the proxy
	// URL the code under test asked to go through ("" for none).
	Dial(ctx context.Context, network, addr, via string) (net.Conn, error)
	// HTTPDo is every HTTP request; via as above (taken from the client).
	HTTPDo(c *http.Client, req *http.Request) (*http.Response, error)
}

var world struct {
	sync.Mutex
	w World
}

func SetWorld(w World) {
	world.Lock()
	world.w = w
	world.Unlock()
}

func getWorld() World {
	world.Lock()
	defer world.Unlock()
	return world.w
}

// ---- math/rand/v2 ---------------------------------------------------------

type streamSource struct{}

func (streamSource) Uint64() uint64 {
	s := cur.Load()
	v := s.St.Choice(1 << 31)
	if v == 0 {
		// the simplest choice still has to be a well-mixed value: a
		// constant would make rejection sampling in math/rand spin
		s.zeroRand++
		return Mix(0x2545f491, s.zeroRand)
	}
	return Mix(uint64(v), 1)
}

var streamRand = mrand.New(streamSource{})

func RandNew(src mrand.Source) *mrand.Rand {
	if Active() {
		return mrand.New(streamSource{})
	}
	return mrand.New(src)
}

type intType interface {
	~int | ~int8 | ~int16 | ~int32 | ~int64 | ~uint | ~uint8 | ~uint16 | ~uint32 | ~uint64 | ~uintptr
}

func RandN[Int intType](n Int) Int {
	if !Active() {
		return mrand.N(n)
	}
	if n <= 0 {
		panic("invalid argument to N")
	}
	if uint64(n) <= 1<<30 {
		return Int(cur.Load().St.Choice(int(n)))
	}
	return Int(streamRand.Uint64N(uint64(n)))
}

func RandIntN(n int) int {
	if !Active() {
		return mrand.IntN(n)
	}
	return RandN(n)
}

func RandPerm(n int) []int {
	if !Active() {
		return mrand.Perm(n)
	}
	return streamRand.Perm(n)
}

func RandUint32() uint32 {
	if !Active() {
		return mrand.Uint32()
	}
	return uint32(streamSource{}.Uint64() >> 32)
}

func RandUint64() uint64 {
	if !Active() {
		return mrand.Uint64()
	}
	return streamSource{}.Uint64()
}

// ---- crypto/rand ----------------------------------------------------------

// CryptoReader is installed as crypto/rand.Reader by the harness.
type CryptoReader struct{ Orig io.Reader }

func (c CryptoReader) Read(p []byte) (int, error) {
	if !Active() {
		return c.Orig.Read(p)
	}
	if g := Self(); g != nil && g.Rand != nil {
		g.Rand.RawFill(p)
		return len(p), nil
	}
	cur.Load().St.Fill(p)
	return len(p), nil
}

// SetRand gives the calling goroutine its own source for crypto/rand, so
// that what it draws does not depend on what other goroutines draw.
func SetRand(st *Stream) {
	if g := Self(); g != nil {
		g.Rand = st
	}
}

// ---- network ---------------------------------------------------------------

func DialContext(d *net.Dialer, ctx context.Context, network, addr string) (net.Conn, error) {
	if !Active() {
		return d.DialContext(ctx, network, addr)
	}
	w := getWorld()
	if w == nil {
		return nil, errors.New("simrt: no world")
	}
	if d != nil && d.Timeout > 0 {
		var cancel context.CancelFunc
		ctx, cancel = context.WithTimeout(ctx, d.Timeout)
		defer cancel()
	}
	return w.Dial(ctx, network, addr, "")
}

func NetDial(network, addr string) (net.Conn, error) {
	if !Active() {
		return net.Dial(network, addr)
	}
	w := getWorld()
	if w == nil {
		return nil, errors.New("simrt: no world")
	}
	return w.Dial(context.Background(), network, addr, "")
}

type simProxy struct{ via string }

func (p simProxy) Dial(network, addr string) (net.Conn, error) {
	return p.DialContext(context.Background(), network, addr)
}

func (p simProxy) DialContext(ctx context.Context, network, addr string) (net.Conn, error) {
	w := getWorld()
	if w == nil {
		return nil, errors.New("simrt: no world")
	}
	return w.Dial(ctx, network, addr, p.via)
}

func ProxyFromURL(u *url.URL, fwd proxy.Dialer) (proxy.Dialer, error) {
	if !Active() {
		return proxy.FromURL(u, fwd)
	}
	switch u.Scheme {
	case "socks5", "socks5h":
		return simProxy{via: u.String()}, nil
	}
	// same error as x/net/proxy for schemes it does not know
	return nil, errors.New("proxy: unknown scheme: " + u.Scheme)
}

func HTTPDo(c *http.Client, req *http.Request) (*http.Response, error) {
	if !Active() {
		return c.Do(req)
	}
	w := getWorld()
	if w == nil {
		return nil, errors.New("simrt: no world")
	}
	return w.HTTPDo(c, req)
}

// ---- misc ------------------------------------------------------------------

// SetFinalizer: finalizers would run outside the bubble and touch bubble
// channels; in a run they are recorded and dropped.
func SetFinalizer(obj any, f any) {
	if !Active() {
		runtime.SetFinalizer(obj, f)
		return
	}
	Probe("finalizer-dropped")
}

type logSink struct{}

func (logSink) Write(p []byte) (int, error) {
	if s := cur.Load(); s != nil && s.cfg.LogLimit > 0 {
		n := len(p)
		if n > 0 && p[n-1] == '\n' {
			n--
		}
		s.Logf("LOG %s", p[:n])
	}
	return len(p), nil
}

// LogNew replaces log.New for code under test: output goes to the run log.
func LogNew(w io.Writer, prefix string, flags int) *log.Logger {
	if !Active() {
		return log.New(w, prefix, flags)
	}
	return log.New(logSink{}, prefix, 0)
}

// LogSink returns a writer into the run log (for log.SetOutput).
func LogSink() io.Writer { return logSink{} }

// AllocFail is consulted by the rewritten alloc.Alloc call sites.
var AllocFail func(size int) bool

var ErrSimAlloc = errors.New("simulated allocation failure")

// mmapFailNext is set by alloc.SimAlloc when the failure it decided to
// inject belongs inside alloc.Alloc, at the mmap system call.
var mmapFailNext bool

// FailNextMmap arms a failure of the next unix.Mmap of the code under test.
func FailNextMmap() { mmapFailNext = true }

// MmapFailPending reports, and clears, a failure that was armed but not
// consumed (the allocation did not reach mmap).
func MmapFailPending() bool { p := mmapFailNext; mmapFailNext = false; return p }

// Mmap replaces unix.Mmap in the code under test.
func Mmap(fd int, offset int64, length int, prot int, flags int) ([]byte, error) {
	if mmapFailNext && Active() {
		mmapFailNext = false
		Fault("alloc-fail-mmap")
		return nil, fmt.Errorf("%w (mmap: %w)", ErrSimAlloc, syscall.ENOMEM)
	}
	return unix.Mmap(fd, offset, length, prot, flags)
}

// Poison overwrites a buffer that is about to be released.
func Poison(p []byte) {
	if !Active() {
		return
	}
	if len(p) < 128*1024 {
		// heap buffers stay readable after Free; make stale reads visible
		for i := range p {
			p[i] = 0xDB
		}
	}
}

var _ = time.Second

// Knob returns the value of a tuning constant of the code under test for
// this run: dflt in most runs; in one run in eight every knob is,
// independently with probability one half, replaced by a small value, so
// that correctness never silently depends on one configuration (a queue
// too long for its full-queue path ever to run is the classic blind
// spot).  The rewriter routes the capacities of buffered channels here.
func Knob(name string, dflt int) int {
	s := cur.Load()
	if s == nil || !runtime_simInBubble() {
		return dflt
	}
	s.mu.Lock()
	defer s.mu.Unlock()
	if s.knobs == nil {
		s.knobs = map[string]int{}
		s.knobsOn = s.KnobsAllowed && s.St.Bool(1, 8)
	}
	if v, ok := s.knobs[name]; ok {
		return v
	}
	v := dflt
	if s.knobsOn && s.St.Bool(1, 2) {
		v = Pick(s.St, 1, 2, 4, 16)
		if v > dflt {
			v = dflt
		}
		s.Probes["knob-"+name+"-small"]++
	}
	s.knobs[name] = v
	return v
}

// PoolGet / PoolPut replace sync.Pool in the code under test: a pool's
// content depends on the P a goroutine happens to run on and on when the
// garbage collector last ran, and it survives from one run of a worker
// process to the next - three things no seed decides.  In a run, a pool is
// a stack that starts empty: what was put last is handed out first, always
// (which is also the most revealing order: a buffer that is still in use
// after it was put back is reused at once).
func PoolGet(p *sync.Pool) any {
	s := cur.Load()
	if s == nil || !runtime_simInBubble() {
		return p.Get()
	}
	s.mu.Lock()
	st := s.pools[p]
	var x any
	if n := len(st); n > 0 {
		x = st[n-1]
		s.pools[p] = st[:n-1]
	}
	s.mu.Unlock()
	if x == nil && p.New != nil {
		x = p.New()
	}
	return x
}

func PoolPut(p *sync.Pool, x any) {
	s := cur.Load()
	if s == nil || !runtime_simInBubble() {
		p.Put(x)
		return
	}
	if x == nil {
		return
	}
	s.mu.Lock()
	if s.pools == nil {
		s.pools = map[*sync.Pool][]any{}
	}
	if len(s.pools[p]) < 64 {
		s.pools[p] = append(s.pools[p], x)
	}
	s.mu.Unlock()
}

// SHA1Sum replaces crypto/sha1.Sum in the code under test: hashing a piece
// takes time.  Under a fake clock it would take none, and everything that
// is driven by a timer (an upload tick, a request tick, a deadline) could
// never happen while a piece is being hashed - the very window in which
// the piece store has released its lock.  In half of the runs a hash takes
// a drawn 100 microseconds to 200 milliseconds of simulated time.
func SHA1Sum(data []byte) [20]byte {
	h := sha1.Sum(data)
	s := cur.Load()
	if s == nil || !runtime_simInBubble() || s.self() == nil {
		return h
	}
	s.mu.Lock()
	if !s.hashDrawn {
		s.hashDrawn = true
		if s.St.Bool(1, 2) {
			s.hashDelay = time.Duration(Pick(s.St, 100, 2000, 20000, 200000)) * time.Microsecond
		}
	}
	d := s.hashDelay
	s.mu.Unlock()
	if d > 0 {
		time.Sleep(d)
		Y(-1)
	}
	return h
}
