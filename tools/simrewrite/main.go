// simrewrite instruments a scratch copy of jech/storrent for deterministic
// simulation (rules R1-R3 of /verif/DESIGN.md).  It works by text edits on
// the original source, so every statement stays on its original line.
//
// usage: simrewrite -dir <scratch copy of /repo> -sites <out.go> -report <out.json>
package main

import (
	"encoding/json"
	"flag"
	"fmt"
	"go/ast"
	"go/token"
	"go/types"
	"os"
	"path/filepath"
	"sort"
	"strings"

	"golang.org/x/tools/go/packages"
)

const simrtPath = "github.com/jech/storrent/zzsim/simrt"

type edit struct {
	pos, end int
	text     string
	lazy     func() string
	left     bool // insertion attached to the node ending here
	seq      int
}

type fileRW struct {
	src   []byte
	fset  *token.FileSet
	file  *ast.File
	tf    *token.File
	info  *types.Info
	pkg   *types.Package
	name  string // pkg-relative file name for site labels
	edits []edit
	used  bool
	keep  map[string]bool
}

var (
	sites   []string
	report  = map[string]int{}
	coarse  []string
	knobs   []string
	modPath = "github.com/jech/storrent"
)

func site(rw *fileRW, pos token.Pos, kind string) int {
	p := rw.fset.Position(pos)
	sites = append(sites, fmt.Sprintf("%s:%d %s", rw.name, p.Line, kind))
	report[kind]++
	return len(sites) - 1
}

func (rw *fileRW) off(p token.Pos) int { return rw.tf.Offset(p) }

func (rw *fileRW) ins(p token.Pos, text string, left bool) {
	rw.used = true
	o := rw.off(p)
	rw.edits = append(rw.edits, edit{pos: o, end: o, text: text, left: left, seq: len(rw.edits)})
}

func (rw *fileRW) repl(p, e token.Pos, text string) {
	rw.used = true
	rw.edits = append(rw.edits, edit{pos: rw.off(p), end: rw.off(e), text: text, seq: len(rw.edits)})
}

func (rw *fileRW) replLazy(p, e token.Pos, f func() string) {
	rw.used = true
	rw.edits = append(rw.edits, edit{pos: rw.off(p), end: rw.off(e), lazy: f, seq: len(rw.edits)})
}

func (rw *fileRW) sortEdits() {
	sort.SliceStable(rw.edits, func(i, j int) bool {
		a, b := rw.edits[i], rw.edits[j]
		if a.pos != b.pos {
			return a.pos < b.pos
		}
		ai, bi := a.pos == a.end, b.pos == b.end
		// at one offset: closers (inner first), then openers (outer first), then replacements (larger first)
		ka, kb := 2, 2
		if ai {
			if a.left {
				ka = 0
			} else {
				ka = 1
			}
		}
		if bi {
			if b.left {
				kb = 0
			} else {
				kb = 1
			}
		}
		if ka != kb {
			return ka < kb
		}
		switch ka {
		case 0:
			return a.seq > b.seq
		case 1:
			return a.seq < b.seq
		default:
			if a.end != b.end {
				return a.end > b.end
			}
			return a.seq < b.seq
		}
	})
}

// render returns src[lo:hi] with the edits that belong to that range applied.
func (rw *fileRW) render(lo, hi int) string {
	var sb strings.Builder
	at := lo
	for i := 0; i < len(rw.edits); i++ {
		e := rw.edits[i]
		if e.pos < lo || e.pos > hi {
			continue
		}
		if e.pos < at {
			continue // inside a replaced range
		}
		insertion := e.pos == e.end
		if insertion {
			if e.pos == lo && e.left {
				continue
			}
			if e.pos == hi && !e.left {
				continue
			}
		} else {
			if e.pos == hi || e.end > hi {
				continue
			}
		}
		sb.Write(rw.src[at:e.pos])
		if e.lazy != nil {
			sb.WriteString(e.lazy())
		} else {
			sb.WriteString(e.text)
		}
		at = e.end
	}
	sb.Write(rw.src[at:hi])
	return sb.String()
}

func (rw *fileRW) text(n ast.Node) string {
	return rw.render(rw.off(n.Pos()), rw.off(n.End()))
}

// ---- type helpers ------------------------------------------------------------

func (rw *fileRW) callee(call *ast.CallExpr) *types.Func {
	var id *ast.Ident
	switch f := ast.Unparen(call.Fun).(type) {
	case *ast.Ident:
		id = f
	case *ast.SelectorExpr:
		id = f.Sel
	case *ast.IndexExpr:
		switch g := ast.Unparen(f.X).(type) {
		case *ast.Ident:
			id = g
		case *ast.SelectorExpr:
			id = g.Sel
		}
	}
	if id == nil {
		return nil
	}
	fn, _ := rw.info.Uses[id].(*types.Func)
	return fn
}

func fullName(fn *types.Func) string {
	if fn == nil {
		return ""
	}
	return fn.FullName()
}

func isBuiltin(info *types.Info, call *ast.CallExpr, name string) bool {
	id, ok := ast.Unparen(call.Fun).(*ast.Ident)
	if !ok || id.Name != name {
		return false
	}
	_, ok = info.Uses[id].(*types.Builtin)
	return ok
}

// recvExpr builds the source text that denotes the (possibly embedded)
// receiver of a promoted method call, as an addressable expression, and
// says whether it is already a pointer.
func (rw *fileRW) recvExpr(sel *ast.SelectorExpr) (text string, isPtr bool, ok bool) {
	s := rw.info.Selections[sel]
	if s == nil {
		return "", false, false
	}
	text = rw.text(sel.X)
	t := s.Recv()
	idx := s.Index()
	for _, i := range idx[:len(idx)-1] {
		if p, okp := t.Underlying().(*types.Pointer); okp {
			t = p.Elem()
		}
		st, oks := t.Underlying().(*types.Struct)
		if !oks {
			return "", false, false
		}
		f := st.Field(i)
		text = "(" + text + ")." + f.Name()
		t = f.Type()
	}
	_, isPtr = t.Underlying().(*types.Pointer)
	if _, isIface := t.Underlying().(*types.Interface); isIface {
		return "", false, false
	}
	return text, isPtr, true
}

func addr(text string, isPtr bool) string {
	if isPtr {
		return text
	}
	return "&" + text
}

// ---- the walk ------------------------------------------------------------------

type walker struct {
	rw    *fileRW
	stack []ast.Node
}

func (w *walker) parent(n int) ast.Node {
	if len(w.stack) < n+1 {
		return nil
	}
	return w.stack[len(w.stack)-1-n]
}

// enclosingListStmt finds the innermost ancestor statement (starting with
// the node on top of the stack) that is an element of a statement list,
// returning it together with its label wrapper if it has one.
func (w *walker) enclosingListStmt() (stmt ast.Stmt, outer ast.Stmt, exact bool) {
	first := true
	for i := len(w.stack) - 1; i > 0; i-- {
		st, ok := w.stack[i].(ast.Stmt)
		if !ok {
			continue
		}
		if _, isLab := st.(*ast.LabeledStmt); isLab {
			continue
		}
		wasFirst := first
		first = false
		par := w.stack[i-1]
		if lab, ok := par.(*ast.LabeledStmt); ok && i >= 2 {
			switch w.stack[i-2].(type) {
			case *ast.BlockStmt, *ast.CaseClause, *ast.CommClause:
				return st, lab, wasFirst
			}
			continue
		}
		switch p := par.(type) {
		case *ast.BlockStmt:
			return st, st, wasFirst
		case *ast.CaseClause:
			for _, b := range p.Body {
				if b == st {
					return st, st, wasFirst
				}
			}
		case *ast.CommClause:
			for _, b := range p.Body {
				if b == st {
					return st, st, wasFirst
				}
			}
		}
	}
	return nil, nil, false
}

func terminal(s ast.Stmt) bool {
	switch s.(type) {
	case *ast.ReturnStmt, *ast.BranchStmt:
		return true
	}
	return false
}

// stmtYield puts a yield before (and optionally after) the list-level
// statement that encloses the node on top of the stack.
func (w *walker) stmtYield(kind string, after bool) {
	rw := w.rw
	st, outer, exact := w.enclosingListStmt()
	if st == nil {
		coarse = append(coarse, fmt.Sprintf("%s: no enclosing list statement for %s", rw.fset.Position(w.stack[len(w.stack)-1].Pos()), kind))
		return
	}
	if !exact {
		coarse = append(coarse, fmt.Sprintf("%s: %s handled at enclosing statement", rw.fset.Position(w.stack[len(w.stack)-1].Pos()), kind))
	}
	id := site(rw, st.Pos(), kind)
	rw.ins(outer.Pos(), fmt.Sprintf("simrt.Y(%d); ", id), false)
	if after && !terminal(st) {
		rw.ins(st.End(), fmt.Sprintf("; simrt.Y(%d)", id), true)
	}
}

func (w *walker) isComm(n ast.Node) bool {
	// n is the statement directly used as CommClause.Comm, or the receive
	// expression of it
	for i := len(w.stack) - 1; i >= 1 && i >= len(w.stack)-3; i-- {
		if cc, ok := w.stack[i-1].(*ast.CommClause); ok {
			if cc.Comm == w.stack[i] {
				// n must be the comm itself, or its top-level receive
				switch c := cc.Comm.(type) {
				case *ast.ExprStmt:
					return n == c || n == ast.Unparen(c.X)
				case *ast.AssignStmt:
					return n == c || (len(c.Rhs) == 1 && n == ast.Unparen(c.Rhs[0]))
				case *ast.SendStmt:
					return n == c
				}
			}
		}
	}
	return false
}

func (w *walker) visit(n ast.Node) bool {
	rw := w.rw
	switch n := n.(type) {
	case *ast.UnaryExpr:
		if n.Op != token.ARROW {
			break
		}
		if w.isComm(n) {
			break
		}
		two := false
		switch p := w.parent(1).(type) {
		case *ast.AssignStmt:
			two = len(p.Lhs) == 2 && len(p.Rhs) == 1 && p.Rhs[0] == n
		case *ast.ValueSpec:
			two = len(p.Names) == 2 && len(p.Values) == 1 && p.Values[0] == n
		}
		id := site(rw, n.Pos(), "recv")
		fn := "Recv"
		if two {
			fn = "Recv2"
		}
		rw.repl(n.OpPos, n.OpPos+2, fmt.Sprintf("simrt.%s(%d, ", fn, id))
		rw.ins(n.End(), ")", true)

	case *ast.SendStmt:
		if w.isComm(n) {
			break
		}
		w.stmtYield("send", true)

	case *ast.SelectStmt:
		w.stmtYield("select", false)
		for _, c := range n.Body.List {
			cc := c.(*ast.CommClause)
			if cc.Comm == nil {
				continue
			}
			id := site(rw, cc.Pos(), "select-case")
			rw.ins(cc.Colon+1, fmt.Sprintf(" simrt.Y(%d);", id), false)
		}

	case *ast.RangeStmt:
		t := rw.info.TypeOf(n.X)
		if t == nil {
			break
		}
		switch t.Underlying().(type) {
		case *types.Chan:
			w.stmtYield("range-chan", true)
			id := site(rw, n.Pos(), "range-chan-body")
			rw.ins(n.Body.Lbrace+1, fmt.Sprintf(" simrt.Y(%d);", id), false)
		case *types.Map:
			w.mapRange(n)
		}

	case *ast.GoStmt:
		w.goStmt(n)

	case *ast.CallExpr:
		return w.call(n)
	}
	return true
}

func (w *walker) mapRange(n *ast.RangeStmt) {
	rw := w.rw
	if n.Tok == token.ASSIGN {
		coarse = append(coarse, fmt.Sprintf("%s: map range with '=' left in runtime order", rw.fset.Position(n.Pos())))
		return
	}
	report["map-range"]++
	keyName := "_simk"
	if id, ok := n.Key.(*ast.Ident); ok && id.Name != "_" {
		keyName = id.Name
	}
	valName := ""
	if n.Value != nil {
		if id, ok := n.Value.(*ast.Ident); ok && id.Name != "_" {
			valName = id.Name
		}
	}
	x := n.X
	rw.replLazy(n.For, n.Body.Lbrace+1, func() string {
		m := rw.text(x)
		var sb strings.Builder
		fmt.Fprintf(&sb, "for _, %s := range simrt.MapKeys(%s) { ", keyName, m)
		if valName != "" {
			fmt.Fprintf(&sb, "%s, _simok := (%s)[%s]; if !_simok { continue }; ", valName, m, keyName)
		} else {
			fmt.Fprintf(&sb, "if _, _simok := (%s)[%s]; !_simok { continue }; ", m, keyName)
		}
		if keyName == "_simk" {
			sb.WriteString("_ = _simk; ")
		}
		// keep the number of lines of the replaced header
		orig := string(rw.src[rw.off(n.For) : rw.off(n.Body.Lbrace)+1])
		for i := strings.Count(sb.String(), "\n"); i < strings.Count(orig, "\n"); i++ {
			sb.WriteString("\n")
		}
		return sb.String()
	})
}

func (w *walker) goStmt(n *ast.GoStmt) {
	rw := w.rw
	call := n.Call
	id := site(rw, n.Pos(), "go")
	if _, ok := ast.Unparen(call.Fun).(*ast.FuncLit); ok && len(call.Args) == 0 {
		rw.repl(n.Go, n.Go+2, fmt.Sprintf("simrt.Go(%d,", id))
		rw.repl(call.Lparen, call.Rparen+1, ")")
		return
	}
	if _, _, exact := w.enclosingListStmt(); !exact {
		coarse = append(coarse, fmt.Sprintf("%s: go statement outside a statement list left unscheduled", rw.fset.Position(n.Pos())))
		return
	}
	rw.repl(n.Go, n.Go+2, "{ _simf := ")
	args := call.Args
	ell := call.Ellipsis.IsValid()
	rw.replLazy(call.Lparen, call.Rparen+1, func() string {
		var sb strings.Builder
		var names []string
		for i, a := range args {
			tv := rw.info.Types[a]
			if tv.Value != nil || tv.IsNil() {
				names = append(names, rw.text(a))
				continue
			}
			nm := fmt.Sprintf("_sima%d", i)
			fmt.Fprintf(&sb, "; %s := %s", nm, rw.text(a))
			names = append(names, nm)
		}
		callArgs := strings.Join(names, ", ")
		if ell {
			callArgs += "..."
		}
		fmt.Fprintf(&sb, "; simrt.Go(%d, func() { _simf(%s) }) ", id, callArgs)
		orig := string(rw.src[rw.off(call.Lparen) : rw.off(call.Rparen)+1])
		for i := strings.Count(sb.String(), "\n"); i < strings.Count(orig, "\n"); i++ {
			sb.WriteString("\n")
		}
		sb.WriteString("}")
		return sb.String()
	})
}

var funcSubst = map[string]string{
	"math/rand/v2.N":       "simrt.RandN",
	"math/rand/v2.IntN":    "simrt.RandIntN",
	"math/rand/v2.Perm":    "simrt.RandPerm",
	"math/rand/v2.Uint32":  "simrt.RandUint32",
	"math/rand/v2.Uint64":  "simrt.RandUint64",
	"math/rand/v2.New":     "simrt.RandNew",
	"net.Dial":             "simrt.NetDial",
	"runtime.SetFinalizer": "simrt.SetFinalizer",
	"crypto/sha1.Sum":      "simrt.SHA1Sum",
	"log.New":              "simrt.LogNew",
	"golang.org/x/net/proxy.FromURL": "simrt.ProxyFromURL",
	// the system call behind large piece buffers: a failure injected here
	// happens inside alloc.Alloc (after whatever it did before the call)
	"golang.org/x/sys/unix.Mmap": "simrt.Mmap",
}

var methodSubst = map[string]string{
	"(*net.Dialer).DialContext": "simrt.DialContext",
	"(*net/http.Client).Do":     "simrt.HTTPDo",
	"(*sync.Map).Range":         "simrt.SyncMapRange",
	"(*sync.Pool).Get":          "simrt.PoolGet",
	"(*sync.Pool).Put":          "simrt.PoolPut",
}

// same-package renames (companion files define the Sim* variants)
var renameSubst = map[string]string{
	modPath + "/alloc.Alloc": "SimAlloc",
	modPath + "/alloc.Free":  "SimFree",
	modPath + "/dht.Announce": "SimAnnounce",
	modPath + "/dht.Ping":     "SimPing",
}

var blockingCalls = map[string]string{
	"(*sync.WaitGroup).Wait": "wg-wait",
	"time.Sleep":             "sleep",
	"(*sync.Cond).Wait":      "cond-wait",
}

var lockCalls = map[string][2]string{
	"(*sync.Mutex).Lock":      {"simrt.Lock", "lock"},
	"(*sync.Mutex).Unlock":    {"simrt.Unlock", ""},
	"(*sync.RWMutex).Lock":    {"simrt.WLock", "lock"},
	"(*sync.RWMutex).Unlock":  {"simrt.WUnlock", ""},
	"(*sync.RWMutex).RLock":   {"simrt.RLock", "rlock"},
	"(*sync.RWMutex).RUnlock": {"simrt.RUnlock", ""},
}

func (w *walker) call(n *ast.CallExpr) bool {
	rw := w.rw
	if isBuiltin(rw.info, n, "close") {
		switch w.parent(1).(type) {
		case *ast.ExprStmt:
			w.stmtYield("close", false)
		}
		return true
	}
	if isBuiltin(rw.info, n, "make") && len(n.Args) == 2 {
		// queue capacities are tuning knobs: make(chan T, 512) becomes
		// make(chan T, simrt.Knob("file.go:line", 512)), so that a run can be
		// given short queues and the code's full-queue paths get exercised
		if _, isChan := n.Args[0].(*ast.ChanType); isChan {
			if lit, ok := n.Args[1].(*ast.BasicLit); ok && lit.Kind == token.INT && lit.Value != "0" && lit.Value != "1" {
				pos := rw.fset.Position(n.Pos())
				rw.repl(lit.Pos(), lit.End(), fmt.Sprintf("simrt.Knob(%q, %s)", fmt.Sprintf("%s:%d", filepath.Base(pos.Filename), pos.Line), lit.Value))
				knobs = append(knobs, fmt.Sprintf("%s:%d cap %s", filepath.Base(pos.Filename), pos.Line, lit.Value))
			}
		}
		return true
	}
	fn := w.rw.callee(n)
	if fn == nil {
		return true
	}
	name := fullName(fn)
	inOwnPkgOf := func(path string) bool { return rw.pkg.Path() == path }

	if lc, ok := lockCalls[name]; ok {
		sel, oks := ast.Unparen(n.Fun).(*ast.SelectorExpr)
		if !oks {
			return true
		}
		recv, isPtr, okr := rw.recvExpr(sel)
		if !okr {
			coarse = append(coarse, fmt.Sprintf("%s: %s through an interface or unusual receiver left as is", rw.fset.Position(n.Pos()), name))
			return true
		}
		if lc[1] != "" {
			id := site(rw, n.Pos(), lc[1])
			rw.replLazy(n.Pos(), n.End(), func() string {
				r, p, _ := rw.recvExpr(sel)
				return fmt.Sprintf("%s(%d, %s)", lc[0], id, addr(r, p))
			})
		} else {
			report["unlock"]++
			rw.replLazy(n.Pos(), n.End(), func() string {
				r, p, _ := rw.recvExpr(sel)
				return fmt.Sprintf("%s(%s)", lc[0], addr(r, p))
			})
		}
		_, _ = recv, isPtr
		return false
	}

	if kind, ok := blockingCalls[name]; ok {
		if _, ok := w.parent(1).(*ast.ExprStmt); ok {
			w.stmtYield(kind, true)
		} else {
			coarse = append(coarse, fmt.Sprintf("%s: %s not a plain statement", rw.fset.Position(n.Pos()), name))
		}
		return true
	}

	if fn.Pkg() != nil && fn.Pkg().Path() == "sync/atomic" {
		switch w.parent(1).(type) {
		case *ast.ExprStmt:
			w.stmtYield("atomic", false)
		case *ast.DeferStmt, *ast.GoStmt:
		default:
			sig := fn.Type().(*types.Signature)
			if sig.Results().Len() == 1 {
				id := site(rw, n.Pos(), "atomic")
				rw.ins(n.Pos(), fmt.Sprintf("simrt.YV(simrt.YI(%d), ", id), false)
				rw.ins(n.End(), ")", true)
			} else {
				w.stmtYield("atomic", false)
			}
		}
		return true
	}

	if to, ok := funcSubst[name]; ok {
		report["subst "+name]++
		f := ast.Unparen(n.Fun)
		if ix, ok := f.(*ast.IndexExpr); ok {
			f = ix.X
		}
		if sel, ok := f.(*ast.SelectorExpr); ok {
			if q, ok := sel.X.(*ast.Ident); ok {
				keep := q.Name + "." + sel.Sel.Name
				if fn.Type().(*types.Signature).TypeParams().Len() > 0 {
					keep = q.Name + ".Uint64" // math/rand/v2.N is generic
				}
				rw.keep[keep] = true
			}
		}
		rw.repl(f.Pos(), f.End(), to)
		return true
	}
	if to, ok := methodSubst[name]; ok {
		sel, oks := ast.Unparen(n.Fun).(*ast.SelectorExpr)
		if !oks {
			return true
		}
		if _, _, okr := rw.recvExpr(sel); !okr {
			coarse = append(coarse, fmt.Sprintf("%s: %s through an unusual receiver left as is", rw.fset.Position(n.Pos()), name))
			return true
		}
		report["subst "+name]++
		comma := ", "
		if len(n.Args) == 0 {
			comma = ""
		}
		rw.replLazy(n.Pos(), n.Lparen+1, func() string {
			r, p, _ := rw.recvExpr(sel)
			return fmt.Sprintf("%s(%s%s", to, addr(r, p), comma)
		})
		return true
	}
	if to, ok := renameSubst[name]; ok {
		// not inside the defining package itself (the companion calls the original)
		if fn.Pkg() != nil && inOwnPkgOf(fn.Pkg().Path()) {
			return true
		}
		report["subst "+name]++
		switch f := ast.Unparen(n.Fun).(type) {
		case *ast.SelectorExpr:
			rw.repl(f.Sel.Pos(), f.Sel.End(), to)
		}
		return true
	}
	return true
}

func (w *walker) push(n ast.Node) { w.stack = append(w.stack, n) }

func (w *walker) walk(n ast.Node) {
	ast.Inspect(n, func(c ast.Node) bool {
		if c == nil {
			w.stack = w.stack[:len(w.stack)-1]
			return false
		}
		w.push(c)
		if !w.visit(c) {
			w.stack = w.stack[:len(w.stack)-1]
			return false
		}
		return true
	})
}

func main() {
	dir := flag.String("dir", "", "scratch copy of the repository")
	sitesOut := flag.String("sites", "", "Go file to write the site table to")
	reportOut := flag.String("report", "", "JSON report")
	flag.Parse()
	cfg := &packages.Config{
		Mode: packages.NeedName | packages.NeedFiles | packages.NeedCompiledGoFiles | packages.NeedSyntax |
			packages.NeedTypes | packages.NeedTypesInfo | packages.NeedImports | packages.NeedDeps,
		Dir: *dir,
		Env: append(os.Environ(), "CGO_ENABLED=0"),
	}
	pkgs, err := packages.Load(cfg, "./...")
	if err != nil {
		fmt.Fprintln(os.Stderr, "simrewrite: load:", err)
		os.Exit(2)
	}
	bad := false
	for _, p := range pkgs {
		for _, e := range p.Errors {
			fmt.Fprintln(os.Stderr, "simrewrite:", e)
			bad = true
		}
	}
	if bad {
		os.Exit(2)
	}
	sort.Slice(pkgs, func(i, j int) bool { return pkgs[i].PkgPath < pkgs[j].PkgPath })
	files := 0
	for _, p := range pkgs {
		if p.Name == "main" || strings.Contains(p.PkgPath, "/zzsim") || !strings.HasPrefix(p.PkgPath, modPath) {
			continue
		}
		for i, f := range p.Syntax {
			fn := p.CompiledGoFiles[i]
			if strings.HasSuffix(fn, "_test.go") || strings.HasPrefix(filepath.Base(fn), "zz_sim") {
				continue
			}
			src, err := os.ReadFile(fn)
			if err != nil {
				fmt.Fprintln(os.Stderr, "simrewrite:", err)
				os.Exit(2)
			}
			rel, _ := filepath.Rel(*dir, fn)
			rw := &fileRW{src: src, fset: p.Fset, file: f, tf: p.Fset.File(f.Pos()), info: p.TypesInfo, pkg: p.Types, name: rel, keep: map[string]bool{}}
			w := &walker{rw: rw}
			w.walk(f)
			if !rw.used {
				continue
			}
			// import, on the line of the package clause
			rw.ins(f.Name.End(), fmt.Sprintf("; import simrt %q", simrtPath), true)
			rw.sortEdits()
			out := rw.render(0, len(src))
			var keeps []string
			for k := range rw.keep {
				keeps = append(keeps, k)
			}
			sort.Strings(keeps)
			for _, k := range keeps {
				out += "\nvar _ = " + k + "\n"
			}
			if err := os.WriteFile(fn, []byte(out), 0o644); err != nil {
				fmt.Fprintln(os.Stderr, "simrewrite:", err)
				os.Exit(2)
			}
			files++
		}
	}
	if *sitesOut != "" {
		var sb strings.Builder
		sb.WriteString("// Code generated by simrewrite. DO NOT EDIT.\n\npackage simsites\n\nimport \"" + simrtPath + "\"\n\nfunc init() {\n\tsimrt.SetSiteNames([]string{\n")
		for _, s := range sites {
			fmt.Fprintf(&sb, "\t\t%q,\n", s)
		}
		sb.WriteString("\t})\n}\n")
		os.MkdirAll(filepath.Dir(*sitesOut), 0o755)
		if err := os.WriteFile(*sitesOut, []byte(sb.String()), 0o644); err != nil {
			fmt.Fprintln(os.Stderr, "simrewrite:", err)
			os.Exit(2)
		}
	}
	if *reportOut != "" {
		b, _ := json.MarshalIndent(map[string]any{"files_rewritten": files, "sites": len(sites), "kinds": report, "coarse": coarse, "knobs": knobs}, "", " ")
		os.WriteFile(*reportOut, b, 0o644)
	}
}
