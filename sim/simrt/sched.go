// Package simrt is the run-time half of the deterministic simulator: a
// cooperative scheduler for real goroutines running inside a
// testing/synctest bubble.  Exactly one goroutine is released at a time;
// which one, and whether a goroutine is preempted at a yield point, is
// decided by the choice stream.  Code under test reaches this package only
// through calls inserted mechanically by /verif/tools/simrewrite.
package simrt

import (
	"container/heap"
	"fmt"
	"runtime/debug"
	"sort"
	"sync"
	"sync/atomic"
	"time"
)

type gstate uint8

const (
	gRunning  gstate = iota // released by the root (or blocked in the runtime; the root finds out)
	gRunnable               // parked at its gate, eligible
	gWaitLock               // parked at its gate, waiting for a lock to be released
	gWaitQ                  // parked at its gate, waiting on a WaitQ
	gWaitIdle               // parked at its gate, waiting for a quiescent instant
	gWaitStep               // parked at its gate, waiting for a predicate checked between any two steps
	gBlocked                // blocked inside the runtime (channel, sleep, WaitGroup, ...)
	gDone
)

func (s gstate) String() string {
	return [...]string{"running", "runnable", "wait-lock", "wait-q", "wait-idle", "wait-step", "blocked", "done"}[s]
}

// G is the scheduler's record of one goroutine.
type G struct {
	ID   int
	Name string
	Sys  bool // started by code under test (a rewritten go statement)

	goid     uint64
	gate     chan struct{}
	state    gstate
	waitOn   any
	waitGen  uint64
	timedOut bool
	since    uint64 // root step at which it became runnable
	site     int32
	spin     int
	held     []any
	pred     func() bool
	deadline time.Time
	prio     int
	Rand     *Stream // per-goroutine crypto/rand source (see SetRand)
}

type Policy struct {
	PreemptDen int  // 0: never preempt the running goroutine at a yield; n: with probability 1/n
	SelectDen  int  // 0: selects poll in source order; n: a random poll order with probability 1/n per step
	RandomPick bool // false: oldest runnable first; true: uniformly random runnable
	PCT        int  // >0: priority scheduling with this many priority change points (uses MaxSteps as horizon)
}

type Crash struct {
	G     string
	Value string
	Stack string
	Step  uint64
	At    time.Duration
}

type Config struct {
	Stream     *Stream
	Policy     Policy
	Horizon    time.Duration // simulated-time limit
	MaxSteps   uint64
	MaxStill   uint64 // consecutive steps without the clock moving (livelock guard)
	LogLimit   int    // number of log lines kept (0: logging off)
	MapShuffle bool   // map iteration order drawn from the stream (else sorted)
	Knobs      bool   // see Knob
	Main       func() // the scenario; the run ends when it returns
}

type Stats struct {
	Steps      uint64
	Preempts   uint64
	Parks      uint64
	MaxG       int
	Spawned    int
	Adopted    int
	SimTime    time.Duration
	Choices    int
	SchedHash  uint64
	EndReason  string
	Leftover   int // goroutines neither finished nor exited at the end
	IdleJumps  uint64
	EventsRun  uint64
	ForcedPark uint64
}

type Sched struct {
	mu      sync.Mutex
	byGoid  map[uint64]*G
	gs      []*G
	current atomic.Pointer[G]
	wake    chan struct{}

	St         *Stream
	Pol        Policy
	cfg        Config
	MapShuffle bool

	step      uint64
	stillFrom uint64
	lastNow   time.Time
	start     time.Time
	events    eventHeap
	evseq     uint64
	mainDone  bool
	aborted   atomic.Bool
	abortWhy  string
	stepHooks []func() // see OnStep
	pools     map[*sync.Pool][]any // see PoolGet
	hashDrawn bool
	hashDelay time.Duration // see SHA1Sum
	knobs     map[string]int
	knobsOn   bool
	// KnobsAllowed: the scenario tolerates shortened queues (see Knob)
	KnobsAllowed bool
	nwatch       int    // goroutines in AwaitStep
	wall0        int64  // real time at the start, see the wall-clock cap
	yields       uint64 // yield points passed (bounds runs that compute without ever blocking)
	done         bool

	Crashes []Crash
	Stats   Stats
	Probes  map[string]int64
	Faults  map[string]int64
	logs    []string
	logDrop int
	hash    uint64

	pctPoints   []uint64
	pctNext     int
	zeroRand    uint64
	spinAdvance bool

	// Values is a scratch area for scenario/oracle code.
	Values map[string]any
}

var cur atomic.Pointer[Sched]

// Cur returns the scheduler of the run in progress, or nil.
func Cur() *Sched { return cur.Load() }

// Active reports whether the caller is a goroutine of a run in progress.
func Active() bool {
	return cur.Load() != nil && runtime_simInBubble()
}

type event struct {
	at  time.Time
	seq uint64
	fn  func()
}
type eventHeap []event

func (h eventHeap) Len() int { return len(h) }
func (h eventHeap) Less(i, j int) bool {
	if !h[i].at.Equal(h[j].at) {
		return h[i].at.Before(h[j].at)
	}
	return h[i].seq < h[j].seq
}
func (h eventHeap) Swap(i, j int) { h[i], h[j] = h[j], h[i] }
func (h *eventHeap) Push(x any)   { *h = append(*h, x.(event)) }
func (h *eventHeap) Pop() any {
	o := *h
	n := len(o)
	e := o[n-1]
	*h = o[:n-1]
	return e
}

// Run executes one simulated run and returns its scheduler (for results).
// It must be called from outside any bubble.
func Run(cfg Config) (s *Sched) {
	if cfg.Horizon == 0 {
		cfg.Horizon = time.Hour
	}
	if cfg.MaxSteps == 0 {
		cfg.MaxSteps = 2_000_000
	}
	if cfg.MaxStill == 0 {
		cfg.MaxStill = 200_000
	}
	s = &Sched{
		byGoid:       make(map[uint64]*G),
		wake:         make(chan struct{}, 1), // replaced inside the bubble
		St:           cfg.Stream,
		Pol:          cfg.Policy,
		cfg:          cfg,
		MapShuffle:   cfg.MapShuffle,
		KnobsAllowed: cfg.Knobs,
		Probes:       make(map[string]int64),
		Faults:       make(map[string]int64),
		Values:       make(map[string]any),
		hash:         14695981039346656037,
	}
	defer func() {
		cur.Store(nil)
		runtime_simSetSelect(false, 0)
		if r := recover(); r != nil {
			// The end-of-bubble deadlock panic: goroutines were left
			// blocked.  That is an observation (Stats.Leftover), not an
			// error of the harness.
			if e, ok := r.(error); ok && len(e.Error()) >= 8 && e.Error()[:8] == "deadlock" {
				return
			}
			panic(r)
		}
	}()
	runtime_simRun(func() {
		s.wake = make(chan struct{}, 1)
		s.start = time.Now()
		s.lastNow = s.start
		cur.Store(s)
		runtime_simSetSelect(true, 0)
		if s.Pol.PCT > 0 {
			for i := 0; i < s.Pol.PCT; i++ {
				s.pctPoints = append(s.pctPoints, uint64(1+s.St.Choice(int(min(cfg.MaxSteps, 20000)))))
			}
			sort.Slice(s.pctPoints, func(i, j int) bool { return s.pctPoints[i] < s.pctPoints[j] })
		}
		s.spawn("main", false, func() {
			cfg.Main()
			s.mainDone = true
		})
		s.loop()
		s.finishRun()
	})
	return s
}

func (s *Sched) finishRun() {
	s.done = true
	s.Stats.Steps = s.step
	s.Stats.SimTime = time.Since(s.start)
	s.Stats.Choices = s.St.Len()
	s.Stats.SchedHash = s.hash
	left := 0
	for _, g := range s.gs {
		if g.state != gDone {
			left++
		}
	}
	s.Stats.Leftover = left
	cur.Store(nil)
}

func (s *Sched) self() *G {
	if !runtime_simInBubble() {
		return nil
	}
	id := runtime_simGoid()
	s.mu.Lock()
	g := s.byGoid[id]
	if g == nil && !s.done {
		// A goroutine started by the standard library (timer callback...)
		// reached instrumented code: adopt it.
		g = &G{ID: len(s.gs) + 1, Name: "adopted", goid: id, gate: make(chan struct{}), state: gBlocked}
		s.gs = append(s.gs, g)
		s.byGoid[id] = g
		s.Stats.Adopted++
	}
	s.mu.Unlock()
	return g
}

// Self returns the calling goroutine's record (nil outside a run).
func Self() *G {
	s := cur.Load()
	if s == nil {
		return nil
	}
	return s.self()
}

func (s *Sched) spawn(name string, sys bool, fn func()) *G {
	s.mu.Lock()
	g := &G{ID: len(s.gs) + 1, Name: name, Sys: sys, gate: make(chan struct{}), state: gRunnable, since: s.step}
	s.gs = append(s.gs, g)
	s.Stats.Spawned++
	s.mu.Unlock()
	go func() {
		id := runtime_simGoid()
		s.mu.Lock()
		g.goid = id
		s.byGoid[id] = g
		s.mu.Unlock()
		<-g.gate
		debug.SetPanicOnFault(true)
		defer s.finish(g)
		fn()
	}()
	return g
}

func (s *Sched) finish(g *G) {
	if r := recover(); r != nil {
		c := Crash{G: g.Name, Value: fmt.Sprint(r), Stack: string(debug.Stack()), Step: s.step, At: time.Since(s.start)}
		s.mu.Lock()
		s.Crashes = append(s.Crashes, c)
		s.mu.Unlock()
		s.Abort("crash: " + c.Value)
	}
	s.mu.Lock()
	g.state = gDone
	delete(s.byGoid, g.goid)
	s.mu.Unlock()
	s.current.CompareAndSwap(g, nil)
	select {
	case s.wake <- struct{}{}:
	default:
	}
}

// Abort ends the run at the next scheduling point.
func (s *Sched) Abort(why string) {
	if s.aborted.CompareAndSwap(false, true) {
		s.abortWhy = why
	}
}

// Go starts fn as a scheduled goroutine.  Outside a run it is `go fn()`.
func Go(site int32, fn func()) {
	s := cur.Load()
	if s == nil || !runtime_simInBubble() {
		go fn()
		return
	}
	s.spawn(SiteName(site), true, fn)
}

// GoNamed starts a harness goroutine.
func GoNamed(name string, fn func()) *G {
	s := cur.Load()
	if s == nil || !runtime_simInBubble() {
		panic("simrt.GoNamed outside a run")
	}
	return s.spawn(name, false, fn)
}

// Y is a yield point.
func Y(site int32) {
	s := cur.Load()
	if s == nil {
		return
	}
	g := s.self()
	if g == nil {
		return
	}
	s.yield(g, site)
}

// YI is Y usable as a leading call argument (evaluated before the
// following arguments, see YV).
func YI(site int32) int {
	Y(site)
	return 0
}

// YV returns v; written as YV(YI(site), expr) it places a yield immediately
// before the evaluation of the calls in expr.
func YV[T any](_ int, v T) T { return v }

func (s *Sched) yield(g *G, site int32) {
	g.site = site
	if s.current.Load() == g {
		if s.done {
			return
		}
		s.yields++
		g.spin++
		if g.spin < 3000 {
			if s.Pol.PreemptDen == 0 || !s.St.Bool(1, s.Pol.PreemptDen) {
				return
			}
			s.Stats.Preempts++
		} else {
			// a goroutine that keeps running through yields without ever
			// blocking (a polling loop) is computing: computation takes
			// time, so the root lets one simulated millisecond pass
			s.Stats.ForcedPark++
			s.spinAdvance = true
		}
	}
	s.park(g, gRunnable, nil)
}

func (s *Sched) park(g *G, st gstate, on any) {
	g.spin = 0
	s.mu.Lock()
	g.state = st
	g.waitOn = on
	s.mu.Unlock()
	s.current.CompareAndSwap(g, nil)
	select {
	case s.wake <- struct{}{}:
	default:
	}
	<-g.gate
}

// ---- root loop ---------------------------------------------------------

func (s *Sched) loop() {
	for {
		runtime_simWait()
		s.step++
		if c := s.current.Load(); c != nil {
			// released last step and did not park: blocked in the runtime
			if c.state == gRunning {
				c.state = gBlocked
			}
			s.current.Store(nil)
		}
		if s.aborted.Load() {
			s.Stats.EndReason = s.abortWhy
			return
		}
		if s.mainDone {
			s.Stats.EndReason = "main returned"
			return
		}
		if s.spinAdvance {
			s.spinAdvance = false
			time.Sleep(time.Millisecond)
		}
		now := time.Now()
		if !now.Equal(s.lastNow) {
			s.lastNow = now
			s.stillFrom = s.step
		} else if s.step-s.stillFrom > s.cfg.MaxStill {
			s.Stats.EndReason = "cap: clock standing still"
			return
		}
		if s.step > s.cfg.MaxSteps {
			s.Stats.EndReason = "cap: steps"
			return
		}
		if s.St.Len() > 20_000_000 {
			s.Stats.EndReason = "cap: choices"
			return
		}
		if s.yields > 40_000_000 {
			s.Stats.EndReason = "cap: yields"
			return
		}
		if s.step&255 == 0 {
			if s.wall0 == 0 {
				s.wall0 = runtime_nanotime()
			} else if runtime_nanotime()-s.wall0 > 75e9 {
				// (inconclusive, like every cap: a run is never judged by how long it took)
				s.Stats.EndReason = "cap: wall clock"
				return
			}
		}
		if now.Sub(s.start) > s.cfg.Horizon {
			s.Stats.EndReason = "cap: horizon"
			return
		}
		// timed events that are due run first, in (time, seq) order
		for len(s.events) > 0 && !s.events[0].at.After(now) {
			e := heap.Pop(&s.events).(event)
			s.Stats.EventsRun++
			e.fn()
		}
		for _, f := range s.stepHooks {
			f()
		}
		if s.nwatch > 0 {
			// predicates watched step by step: the state is at rest here
			// (every goroutine is parked at a yield point or blocked)
			for _, g := range s.gs {
				if g.state == gWaitStep && g.pred != nil && g.pred() {
					g.timedOut = false
					s.nwatch--
					s.makeRunnable(g)
				}
			}
		}
		run := s.runnable()
		if len(run) > s.Stats.MaxG {
			s.Stats.MaxG = len(run)
		}
		if len(run) == 0 {
			if s.releaseIdleWaiter(now) {
				continue
			}
			// nothing can run: let the fake clock jump to the next timer of
			// the system, or to our next event.
			d := s.start.Add(s.cfg.Horizon).Sub(now) + time.Nanosecond
			if len(s.events) > 0 {
				if e := s.events[0].at.Sub(now); e < d {
					d = e
				}
			}
			if dl, ok := s.nextIdleDeadline(); ok {
				if e := dl.Sub(now); e < d {
					d = e
				}
			}
			if d < 0 {
				d = 0
			}
			select {
			case <-s.wake:
			default:
			}
			s.Stats.IdleJumps++
			t := time.NewTimer(d)
			select {
			case <-s.wake:
				t.Stop()
			case <-t.C:
			}
			continue
		}
		g := s.pick(run)
		var seed uint64
		if s.Pol.SelectDen > 0 && s.St.Bool(1, s.Pol.SelectDen) {
			seed = uint64(1 + s.St.Choice(1<<16))
		}
		runtime_simSetSelect(true, seed)
		s.hash = (s.hash ^ uint64(g.ID)<<32 ^ uint64(uint32(g.site))) * 1099511628211
		g.state = gRunning
		s.current.Store(g)
		s.Stats.Parks++
		g.gate <- struct{}{}
	}
}

func (s *Sched) runnable() []*G {
	var run []*G
	for _, g := range s.gs {
		if g.state == gRunnable {
			run = append(run, g)
		}
	}
	// oldest first; ties by id (creation order).  s.gs is in id order, so a
	// stable sort by 'since' gives that.
	sort.SliceStable(run, func(i, j int) bool { return run[i].since < run[j].since })
	return run
}

func (s *Sched) pick(run []*G) *G {
	if s.Pol.PCT > 0 {
		// priority scheduling: lower prio value runs first; at a change
		// point the running candidate's priority drops below all others.
		for s.pctNext < len(s.pctPoints) && s.pctPoints[s.pctNext] <= s.step {
			s.pctNext++
			run[0].prio = 1_000_000 + s.pctNext
		}
		best := run[0]
		for _, g := range run[1:] {
			if s.gprio(g) < s.gprio(best) {
				best = g
			}
		}
		return best
	}
	if s.Pol.RandomPick {
		return run[s.St.Choice(len(run))]
	}
	return run[0]
}

func (s *Sched) gprio(g *G) int {
	if g.prio == 0 {
		// initial priorities: a fixed pseudo-random permutation of ids
		g.prio = 1 + int(Mix(0x9c7, uint64(g.ID))%100000)
	}
	return g.prio
}

func (s *Sched) makeRunnable(g *G) {
	g.state = gRunnable
	g.since = s.step
	g.waitOn = nil
}

// After schedules fn to run on the root goroutine at simulated time now+d,
// with every other goroutine blocked.  fn must not block.
func (s *Sched) After(d time.Duration, fn func()) {
	if d < 0 {
		d = 0
	}
	s.evseq++
	heap.Push(&s.events, event{at: time.Now().Add(d), seq: s.evseq, fn: fn})
}

// Now is the simulated time since the start of the run.
func (s *Sched) Now() time.Duration { return time.Since(s.start) }

// Step is the global event sequence number (scheduler step).
func (s *Sched) Step() uint64 { return s.step }

// ---- waiting for a quiescent instant ------------------------------------

func (s *Sched) releaseIdleWaiter(now time.Time) bool {
	for _, g := range s.gs {
		if g.state != gWaitIdle {
			continue
		}
		if g.pred == nil || g.pred() {
			g.timedOut = false
			s.makeRunnable(g)
			return true
		}
		if !g.deadline.IsZero() && !now.Before(g.deadline) {
			g.timedOut = true
			s.makeRunnable(g)
			return true
		}
	}
	return false
}

func (s *Sched) nextIdleDeadline() (time.Time, bool) {
	var best time.Time
	ok := false
	for _, g := range s.gs {
		if g.state == gWaitIdle && !g.deadline.IsZero() {
			if !ok || g.deadline.Before(best) {
				best, ok = g.deadline, true
			}
		}
	}
	return best, ok
}

// Quiesce parks the caller until an instant at which no goroutine can run
// and pred (if any) holds; while the caller then runs without yielding,
// nothing else in the system executes.  It returns false if maxWait of
// simulated time passed first (0: no limit).
func Quiesce(pred func() bool, maxWait time.Duration) bool {
	s := cur.Load()
	g := s.self()
	g.pred = pred
	if maxWait > 0 {
		g.deadline = time.Now().Add(maxWait)
	} else {
		g.deadline = time.Time{}
	}
	s.park(g, gWaitIdle, nil)
	g.pred = nil
	return !g.timedOut
}

// AwaitStep parks the caller until pred holds between two scheduling steps
// (it is evaluated by the scheduler after every step, i.e. whenever any
// goroutine has reached its next yield point), or until maxWait of
// simulated time has passed (false).  It lets a scenario place an operation
// inside a window that exists only between two yield points of the code
// under test - "the piece is being hashed", "the event is queued but not
// handled" - instead of waiting for chance to put it there.  pred must be
// cheap and must not block.
func AwaitStep(pred func() bool, maxWait time.Duration) bool {
	s := cur.Load()
	g := s.self()
	g.pred = pred
	g.waitGen++
	gen := g.waitGen
	g.timedOut = false
	s.nwatch++
	if maxWait > 0 {
		s.After(maxWait, func() {
			if g.state == gWaitStep && g.waitGen == gen {
				g.timedOut = true
				s.nwatch--
				s.makeRunnable(g)
			}
		})
	}
	s.park(g, gWaitStep, nil)
	g.pred = nil
	return !g.timedOut
}

// OnStep registers a monitor that the scheduler calls between any two
// steps of the run, when every goroutine is parked at a yield point or
// blocked: an invariant checked "after every delivered event".  f must be
// cheap, must not block and must not draw choices.
func OnStep(f func()) {
	if s := cur.Load(); s != nil {
		s.stepHooks = append(s.stepHooks, f)
	}
}

// Sleep advances simulated time for the caller.
func Sleep(d time.Duration) {
	time.Sleep(d)
	Y(-1)
}

// ---- WaitQ: blocking primitive for simulated devices --------------------

// WaitQ is a queue of goroutines waiting for a condition of a simulated
// device.  It is used only from scheduled goroutines and root events, which
// never overlap, so it needs no lock.
type WaitQ struct {
	ws []*G
}

// Wait parks the caller until Wake; with timeout>0 it returns false when
// the timeout expired first.
func (q *WaitQ) Wait(timeout time.Duration) bool {
	s := cur.Load()
	g := s.self()
	g.waitGen++
	gen := g.waitGen
	g.timedOut = false
	q.ws = append(q.ws, g)
	if timeout > 0 {
		s.After(timeout, func() {
			if g.state == gWaitQ && g.waitGen == gen {
				g.timedOut = true
				q.remove(g)
				s.makeRunnable(g)
			}
		})
	}
	s.park(g, gWaitQ, q)
	return !g.timedOut
}

func (q *WaitQ) remove(g *G) {
	for i, x := range q.ws {
		if x == g {
			q.ws = append(q.ws[:i], q.ws[i+1:]...)
			return
		}
	}
}

// Wake makes every waiter eligible.
func (q *WaitQ) Wake() {
	if len(q.ws) == 0 {
		return
	}
	s := cur.Load()
	if s == nil {
		q.ws = nil
		return
	}
	for _, g := range q.ws {
		if g.state == gWaitQ {
			s.makeRunnable(g)
		}
	}
	q.ws = q.ws[:0]
}

// Waiting reports the number of waiters.
func (q *WaitQ) Waiting() int { return len(q.ws) }

// ---- reports -------------------------------------------------------------

// Goroutines describes the goroutines that have not finished.
func (s *Sched) Goroutines() []string {
	var out []string
	for _, g := range s.gs {
		if g.state != gDone {
			out = append(out, fmt.Sprintf("#%d %s [%s] site=%s sys=%v", g.ID, g.Name, g.state, SiteName(g.site), g.Sys))
		}
	}
	return out
}

// LiveSys counts unfinished goroutines started by code under test.
func (s *Sched) LiveSys() (n int, names []string) {
	for _, g := range s.gs {
		if g.state != gDone && g.Sys {
			n++
			names = append(names, fmt.Sprintf("%s [%s] at %s", g.Name, g.state, SiteName(g.site)))
		}
	}
	return
}

// Logf appends a line to the run log (kept only when logging is on).
func (s *Sched) Logf(format string, args ...any) {
	if s == nil || s.cfg.LogLimit == 0 {
		return
	}
	line := fmt.Sprintf("%6d %12v ", s.step, time.Since(s.start)) + fmt.Sprintf(format, args...)
	s.mu.Lock()
	if len(s.logs) >= s.cfg.LogLimit {
		s.logs = s.logs[1:]
		s.logDrop++
	}
	s.logs = append(s.logs, line)
	s.mu.Unlock()
}

// Logf logs on the current run, if any.
func Logf(format string, args ...any) {
	if s := cur.Load(); s != nil {
		s.Logf(format, args...)
	}
}

func (s *Sched) Logs() []string { return s.logs }

// LogOn reports whether the run keeps a log.
func (s *Sched) LogOn() bool { return s.cfg.LogLimit > 0 }

// Note folds a value into the run's determinism hash.
func (s *Sched) Note(v uint64) {
	s.hash = (s.hash ^ v) * 1099511628211
}

func Probe(name string) {
	if s := cur.Load(); s != nil {
		s.mu.Lock()
		s.Probes[name]++
		s.mu.Unlock()
	}
}

func Fault(name string) {
	if s := cur.Load(); s != nil {
		s.mu.Lock()
		s.Faults[name]++
		s.mu.Unlock()
	}
}

// St returns the choice stream of the current run.
func St() *Stream { return cur.Load().St }

var siteNames atomic.Pointer[[]string]

// SetSiteNames installs the table generated by the rewriter.
func SetSiteNames(n []string) { siteNames.Store(&n) }

func SiteName(site int32) string {
	if site < 0 {
		return "harness"
	}
	if p := siteNames.Load(); p != nil && int(site) < len(*p) {
		return (*p)[site]
	}
	return fmt.Sprintf("site%d", site)
}
