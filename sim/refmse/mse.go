// Package refmse is an independent reference implementation of Message
// Stream Encryption (MSE, also called Protocol Encryption, PE), the
// obfuscation layer used by BitTorrent clients, written from the
// specification only ("Message Stream Encryption", Azureus/Vuze wiki,
// version 1.0).  It is meant to be used as a test oracle and as a scripted
// peer.
//
// The protocol, with A the initiator and B the responder:
//
//	1 A->B: Diffie Hellman Ya, PadA
//	2 B->A: Diffie Hellman Yb, PadB
//	3 A->B: HASH('req1', S), HASH('req2', SKEY) xor HASH('req3', S),
//	        ENCRYPT(VC, crypto_provide, len(PadC), PadC, len(IA)), ENCRYPT(IA)
//	4 B->A: ENCRYPT(VC, crypto_select, len(padD), padD), ENCRYPT2(Payload Stream)
//	5 A->B: ENCRYPT2(Payload Stream)
//
// The library starts no goroutines, keeps no global mutable state, does not
// use time, and takes all its randomness from Options.Rand.
//
// Note on synchronous transports: each protocol step is written with a single
// Write call and reads go through a 4096-byte buffered reader, so that the
// handshake completes over an unbuffered pipe such as net.Pipe as long as
// the transport hands a whole Write to a sufficiently large Read.  Over a
// transport with no buffering at all AND reads shorter than the writes, step
// 1 and step 2 deadlock (A is still writing PadA when B starts writing Yb);
// that is inherent in the protocol, which assumes TCP-like buffering.
package refmse

import (
	"bufio"
	"bytes"
	"crypto/rc4"
	"crypto/sha1"
	"encoding/binary"
	"errors"
	"fmt"
	"io"
	"math/big"
)

// Protocol constants (MSE spec, "Constants/Variables").
const (
	// KeyLen is the length of a DH public key and of the shared secret S
	// on the wire: 768 bits, big-endian, left-padded with zeros.
	KeyLen = 96
	// MaxPad is the maximum length of PadA, PadB, PadC and PadD.
	MaxPad = 512
	// ScanSlack is how many bytes beyond MaxPad this implementation keeps
	// scanning for a synchronisation point (req1 hash or ENCRYPT(VC))
	// before giving up.  The observed pad length is reported in
	// Result.PeerPadLen so that an oracle can still flag pads > MaxPad.
	ScanSlack = 8
	// DefaultPrivBits is the default size of the DH private key (the spec
	// recommends 160 bits).
	DefaultPrivBits = 160

	// crypto_provide / crypto_select bits.
	CryptoPlaintext uint32 = 0x01
	CryptoRC4       uint32 = 0x02
)

// primeHex is the 768-bit prime P of the spec.
const primeHex = "FFFFFFFFFFFFFFFFC90FDAA22168C234C4C6628B80DC1CD129024E088A67CC74" +
	"020BBEA63B139B22514A08798E3404DDEF9519B3CD3A431B302B0A6DF25F1437" +
	"4FE1356D6D51C245E485B576625E7EC6F44C42E9A63A36210000000000090563"

// Prime returns a fresh copy of the DH prime P.
func Prime() *big.Int {
	p, ok := new(big.Int).SetString(primeHex, 16)
	if !ok {
		panic("refmse: bad prime constant")
	}
	return p
}

// Generator is the DH generator G.
const Generator = 2

// Errors.
var (
	ErrOptions        = errors.New("refmse: invalid options")
	ErrNoSync         = errors.New("refmse: synchronisation point not found within bound")
	ErrUnknownSKey    = errors.New("refmse: HASH('req2', SKEY) matches none of the candidate keys")
	ErrBadVC          = errors.New("refmse: verification constant is not 8 zero bytes")
	ErrBadPadLen      = errors.New("refmse: declared pad length exceeds 512")
	ErrBadSelect      = errors.New("refmse: crypto_select is not exactly one of the offered methods")
	ErrNoCommonCrypto = errors.New("refmse: no acceptable method in crypto_provide")
)

// Options configures Initiate and Respond.
type Options struct {
	// Rand is the source of all random bytes; required.  Consumption order
	// (fixed, so that runs are reproducible): private key, then (if
	// PadLen < 0) the PadA/PadB length, the PadA/PadB bytes, then (if
	// PadCLen < 0) the PadC/PadD length, the PadC/PadD bytes.  All of it is
	// drawn before the first byte of I/O.  A random length is drawn by
	// reading 2 bytes, keeping the low 10 bits, and retrying while the
	// value exceeds 512.
	Rand io.Reader

	// Provide is the crypto_provide bitfield the initiator sends.  It is
	// sent verbatim, so 0 or unassigned bits can be used to test the peer.
	Provide uint32

	// Select lets the responder choose crypto_select from the
	// crypto_provide it saw.  Its result is sent verbatim (even 0 or
	// several bits).  If nil, the responder picks RC4 (2) if offered, else
	// plaintext (1) if offered, else fails with ErrNoCommonCrypto without
	// sending step 4.
	Select func(provide uint32) uint32

	// PadLen is the length of PadA (initiator) or PadB (responder); -1
	// draws it uniformly from 0..512.  Values above 512 are sent as asked.
	PadLen int

	// PadCLen is the length of PadC (initiator) or PadD (responder); -1
	// draws it uniformly from 0..512.  At most 65535.
	PadCLen int

	// IA is the initiator's initial payload, sent inside step 3 (typically
	// the 68-byte BitTorrent handshake).  May be empty; at most 65535.
	IA []byte

	// SKeys are the candidate shared keys (info-hashes).  The initiator
	// needs exactly one, the responder at least one.
	SKeys [][]byte

	// PrivBits is the size of the DH private key in bits; 0 means 160.
	PrivBits int
}

// Result describes a completed handshake.  When Initiate or Respond fail
// after having learned something about the peer, they return a non-nil
// Result holding what was learned so far (with a nil RW) together with the
// error.
type Result struct {
	SKey     []byte // the shared key that matched (responder) / was used (initiator)
	Provide  uint32 // crypto_provide as sent/seen
	Selected uint32 // crypto_select as sent/seen
	IA       []byte // responder: the initiator's initial payload, decrypted

	// RW is the stream to use after the handshake: RC4 en/decrypting with
	// the continuing keyA/keyB streams if Selected == 2, plain otherwise.
	// Its Read first returns any bytes that had already been read from the
	// connection beyond the end of the handshake.
	RW io.ReadWriter

	S          []byte // the 96-byte DH secret
	KeyA, KeyB []byte // the 20-byte RC4 keys

	PeerPub      []byte // the peer's 96-byte DH public key as received
	PeerPadLen   int    // observed length of the peer's PadA/PadB
	PeerPadCDLen int    // declared length of the peer's PadC/PadD
}

// ---------------------------------------------------------------------------
// Building blocks.

func hash(parts ...[]byte) []byte {
	h := sha1.New() // HASH() is SHA-1 (MSE spec)
	for _, p := range parts {
		h.Write(p)
	}
	return h.Sum(nil)
}

// DHPublic returns G^priv mod P as 96 big-endian bytes.
func DHPublic(priv *big.Int) []byte {
	y := new(big.Int).Exp(big.NewInt(Generator), priv, Prime())
	return y.FillBytes(make([]byte, KeyLen))
}

// DHSecret returns S = peerPub^priv mod P as 96 big-endian bytes.  peerPub is
// interpreted as a big-endian number whatever its length; no validation of
// the peer's key is done (the spec asks for none).
func DHSecret(priv *big.Int, peerPub []byte) []byte {
	y := new(big.Int).SetBytes(peerPub)
	s := y.Exp(y, priv, Prime())
	return s.FillBytes(make([]byte, KeyLen))
}

// Req1 returns HASH('req1', S).
func Req1(S []byte) []byte { return hash([]byte("req1"), S) }

// Req2XorReq3 returns HASH('req2', SKEY) xor HASH('req3', S).
func Req2XorReq3(skey, S []byte) []byte {
	a := hash([]byte("req2"), skey)
	b := hash([]byte("req3"), S)
	for i := range a {
		a[i] ^= b[i]
	}
	return a
}

// DeriveKeys returns keyA = HASH('keyA', S, SKEY), with which the initiator
// encrypts, and keyB = HASH('keyB', S, SKEY), with which the responder
// encrypts.
func DeriveKeys(S, skey []byte) (keyA, keyB []byte) {
	return hash([]byte("keyA"), S, skey), hash([]byte("keyB"), S, skey)
}

// NewRC4Drop1024 returns an RC4 stream keyed with key whose first 1024
// keystream bytes have been discarded (MSE spec: "the first 1024 bytes of the
// RC4 output are discarded").
func NewRC4Drop1024(key []byte) *rc4.Cipher {
	c, err := rc4.NewCipher(key)
	if err != nil {
		// Only possible for key lengths outside 1..256.
		panic("refmse: " + err.Error())
	}
	var drop [1024]byte
	c.XORKeyStream(drop[:], drop[:])
	return c
}

// ---------------------------------------------------------------------------
// Helpers.

func readRand(r io.Reader, n int) ([]byte, error) {
	b := make([]byte, n)
	if _, err := io.ReadFull(r, b); err != nil {
		return nil, fmt.Errorf("refmse: reading Options.Rand: %w", err)
	}
	return b, nil
}

// genPad returns a pad of length want, or of uniform random length 0..MaxPad
// if want < 0.
func genPad(r io.Reader, want, limit int) ([]byte, error) {
	if want > limit {
		return nil, ErrOptions
	}
	if want < 0 {
		for {
			b, err := readRand(r, 2)
			if err != nil {
				return nil, err
			}
			want = int(binary.BigEndian.Uint16(b) & 0x3ff)
			if want <= MaxPad {
				break
			}
		}
	}
	return readRand(r, want)
}

// genPriv draws a private key of the given number of bits.
func genPriv(r io.Reader, bits int) (*big.Int, error) {
	if bits == 0 {
		bits = DefaultPrivBits
	}
	if bits < 0 || bits > 8*KeyLen {
		return nil, ErrOptions
	}
	b, err := readRand(r, (bits+7)/8)
	if err != nil {
		return nil, err
	}
	if extra := uint(8*len(b) - bits); extra > 0 {
		b[0] &= 0xff >> extra
	}
	return new(big.Int).SetBytes(b), nil
}

// eof turns a clean EOF in the middle of the handshake into
// io.ErrUnexpectedEOF.
func eof(err error) error {
	if err == io.EOF {
		return io.ErrUnexpectedEOF
	}
	return err
}

func readFull(br *bufio.Reader, n int) ([]byte, error) {
	b := make([]byte, n)
	if _, err := io.ReadFull(br, b); err != nil {
		return nil, eof(err)
	}
	return b, nil
}

// scanFor consumes bytes from br up to and including the first occurrence of
// pat, and returns the number of bytes that preceded it.  It fails with
// ErrNoSync once maxSkip+len(pat) bytes have been consumed without a match.
// It reads byte-wise, so it never consumes anything beyond the match.
func scanFor(br *bufio.Reader, pat []byte, maxSkip int) (int, error) {
	limit := maxSkip + len(pat)
	buf := make([]byte, 0, limit)
	for len(buf) < limit {
		c, err := br.ReadByte()
		if err != nil {
			return len(buf), eof(err)
		}
		buf = append(buf, c)
		if bytes.HasSuffix(buf, pat) {
			return len(buf) - len(pat), nil
		}
	}
	return len(buf), ErrNoSync
}

// stream is the post-handshake connection.  Reads go through the buffered
// reader the handshake used, so nothing it read ahead is lost.
type stream struct {
	r   io.Reader
	w   io.Writer
	dec *rc4.Cipher // nil: plaintext
	enc *rc4.Cipher // nil: plaintext
}

func (s *stream) Read(p []byte) (int, error) {
	n, err := s.r.Read(p)
	if s.dec != nil && n > 0 {
		s.dec.XORKeyStream(p[:n], p[:n])
	}
	return n, err
}

func (s *stream) Write(p []byte) (int, error) {
	if s.enc == nil {
		return s.w.Write(p)
	}
	// Encrypt into a scratch buffer: the caller's slice must not be
	// modified (io.Writer contract).
	c := make([]byte, len(p))
	s.enc.XORKeyStream(c, p)
	return s.w.Write(c)
}

func newStream(br *bufio.Reader, conn io.Writer, selected uint32, dec, enc *rc4.Cipher) io.ReadWriter {
	if selected == CryptoRC4 {
		return &stream{r: br, w: conn, dec: dec, enc: enc}
	}
	return &stream{r: br, w: conn}
}

// ---------------------------------------------------------------------------
// Initiator (A).

// Initiate performs the handshake as the initiator A.
func Initiate(conn io.ReadWriter, o Options) (*Result, error) {
	if o.Rand == nil || len(o.SKeys) != 1 || len(o.IA) > 0xffff || o.PadLen > 1<<20 {
		return nil, ErrOptions
	}
	skey := o.SKeys[0]
	priv, err := genPriv(o.Rand, o.PrivBits)
	if err != nil {
		return nil, err
	}
	padA, err := genPad(o.Rand, o.PadLen, 1<<20)
	if err != nil {
		return nil, err
	}
	padC, err := genPad(o.Rand, o.PadCLen, 0xffff)
	if err != nil {
		return nil, err
	}
	br := bufio.NewReaderSize(conn, 4096)

	// Step 1, A->B: Ya, PadA.
	if _, err := conn.Write(append(DHPublic(priv), padA...)); err != nil {
		return nil, err
	}

	// Step 2, B->A: Yb (exactly 96 bytes), PadB.  PadB is skipped below
	// while looking for ENCRYPT(VC), which needs the keys, hence S, hence
	// Yb first.
	yb, err := readFull(br, KeyLen)
	if err != nil {
		return nil, err
	}
	res := &Result{SKey: skey, Provide: o.Provide, PeerPub: yb}
	res.S = DHSecret(priv, yb)
	res.KeyA, res.KeyB = DeriveKeys(res.S, skey)
	enc := NewRC4Drop1024(res.KeyA) // A encrypts with keyA
	dec := NewRC4Drop1024(res.KeyB) // and decrypts what B encrypted with keyB

	// Step 3, A->B: HASH('req1', S), HASH('req2', SKEY) xor HASH('req3', S),
	// ENCRYPT(VC, crypto_provide, len(PadC), PadC, len(IA)), ENCRYPT(IA).
	// VC is 8 zero bytes, crypto_provide 4 bytes, the lengths 2 bytes each,
	// all big-endian.  ENCRYPT(IA) continues the same keyA stream.
	plain := make([]byte, 0, 8+4+2+len(padC)+2+len(o.IA))
	plain = append(plain, make([]byte, 8)...) // VC
	plain = binary.BigEndian.AppendUint32(plain, o.Provide)
	plain = binary.BigEndian.AppendUint16(plain, uint16(len(padC)))
	plain = append(plain, padC...)
	plain = binary.BigEndian.AppendUint16(plain, uint16(len(o.IA)))
	plain = append(plain, o.IA...)
	enc.XORKeyStream(plain, plain)
	msg := append(Req1(res.S), Req2XorReq3(skey, res.S)...)
	msg = append(msg, plain...)
	if _, err := conn.Write(msg); err != nil {
		return res, err
	}

	// Step 4, B->A: ENCRYPT(VC, crypto_select, len(padD), padD).  The end
	// of PadB is found by looking for ENCRYPT(VC), i.e. the first 8 bytes
	// of B's keystream after the 1024-byte discard; PadB is at most 512
	// bytes, so the match must begin within the next 512 bytes.
	vc := make([]byte, 8)
	dec.XORKeyStream(vc, vc)
	skipped, err := scanFor(br, vc, MaxPad+ScanSlack)
	res.PeerPadLen = skipped
	if err != nil {
		return res, err
	}
	hdr, err := readFull(br, 4+2)
	if err != nil {
		return res, err
	}
	dec.XORKeyStream(hdr, hdr)
	res.Selected = binary.BigEndian.Uint32(hdr)
	res.PeerPadCDLen = int(binary.BigEndian.Uint16(hdr[4:]))
	if res.PeerPadCDLen > MaxPad {
		return res, ErrBadPadLen
	}
	padD, err := readFull(br, res.PeerPadCDLen)
	if err != nil {
		return res, err
	}
	dec.XORKeyStream(padD, padD) // keep the keystream in step; contents are ignored

	// crypto_select must be exactly one bit, and one that was offered.
	sel := res.Selected
	if sel == 0 || sel&(sel-1) != 0 || sel&o.Provide == 0 {
		return res, ErrBadSelect
	}
	// Only methods 1 and 2 are defined; anything else that was offered
	// (to test the peer) and selected cannot be spoken by this library.
	if sel != CryptoPlaintext && sel != CryptoRC4 {
		return res, ErrBadSelect
	}
	res.RW = newStream(br, conn, sel, dec, enc)
	return res, nil
}

// ---------------------------------------------------------------------------
// Responder (B).

// Respond performs the handshake as the responder B.
func Respond(conn io.ReadWriter, o Options) (*Result, error) {
	if o.Rand == nil || len(o.SKeys) == 0 || o.PadLen > 1<<20 {
		return nil, ErrOptions
	}
	priv, err := genPriv(o.Rand, o.PrivBits)
	if err != nil {
		return nil, err
	}
	padB, err := genPad(o.Rand, o.PadLen, 1<<20)
	if err != nil {
		return nil, err
	}
	padD, err := genPad(o.Rand, o.PadCLen, 0xffff)
	if err != nil {
		return nil, err
	}
	br := bufio.NewReaderSize(conn, 4096)

	// Step 1, A->B: Ya (exactly 96 bytes), PadA.
	ya, err := readFull(br, KeyLen)
	if err != nil {
		return nil, err
	}
	res := &Result{PeerPub: ya}
	res.S = DHSecret(priv, ya)

	// Step 2, B->A: Yb, PadB.
	if _, err := conn.Write(append(DHPublic(priv), padB...)); err != nil {
		return res, err
	}

	// Step 3.  The end of PadA is found by looking for HASH('req1', S);
	// PadA is at most 512 bytes, so the hash must begin within the next
	// 512 bytes.
	skipped, err := scanFor(br, Req1(res.S), MaxPad+ScanSlack)
	res.PeerPadLen = skipped
	if err != nil {
		return res, err
	}
	// HASH('req2', SKEY) xor HASH('req3', S) identifies the torrent: try
	// every candidate SKEY.
	x, err := readFull(br, sha1.Size)
	if err != nil {
		return res, err
	}
	found := false
	for _, k := range o.SKeys {
		if bytes.Equal(Req2XorReq3(k, res.S), x) {
			res.SKey, found = k, true
			break
		}
	}
	if !found {
		return res, ErrUnknownSKey
	}
	res.KeyA, res.KeyB = DeriveKeys(res.S, res.SKey)
	dec := NewRC4Drop1024(res.KeyA) // B decrypts what A encrypted with keyA
	enc := NewRC4Drop1024(res.KeyB) // and encrypts with keyB

	// ENCRYPT(VC, crypto_provide, len(PadC), PadC, len(IA)), ENCRYPT(IA).
	hdr, err := readFull(br, 8+4+2)
	if err != nil {
		return res, err
	}
	dec.XORKeyStream(hdr, hdr)
	if !bytes.Equal(hdr[:8], make([]byte, 8)) {
		return res, ErrBadVC
	}
	res.Provide = binary.BigEndian.Uint32(hdr[8:])
	res.PeerPadCDLen = int(binary.BigEndian.Uint16(hdr[12:]))
	if res.PeerPadCDLen > MaxPad {
		return res, ErrBadPadLen
	}
	rest, err := readFull(br, res.PeerPadCDLen+2)
	if err != nil {
		return res, err
	}
	dec.XORKeyStream(rest, rest) // PadC (ignored) and len(IA)
	iaLen := int(binary.BigEndian.Uint16(rest[res.PeerPadCDLen:]))
	ia, err := readFull(br, iaLen)
	if err != nil {
		return res, err
	}
	dec.XORKeyStream(ia, ia)
	res.IA = ia

	// Choose crypto_select.
	if o.Select != nil {
		res.Selected = o.Select(res.Provide)
	} else {
		switch {
		case res.Provide&CryptoRC4 != 0:
			res.Selected = CryptoRC4
		case res.Provide&CryptoPlaintext != 0:
			res.Selected = CryptoPlaintext
		default:
			return res, ErrNoCommonCrypto
		}
	}

	// Step 4, B->A: ENCRYPT(VC, crypto_select, len(padD), padD).
	out := make([]byte, 0, 8+4+2+len(padD))
	out = append(out, make([]byte, 8)...) // VC
	out = binary.BigEndian.AppendUint32(out, res.Selected)
	out = binary.BigEndian.AppendUint16(out, uint16(len(padD)))
	out = append(out, padD...)
	enc.XORKeyStream(out, out)
	if _, err := conn.Write(out); err != nil {
		return res, err
	}
	res.RW = newStream(br, conn, res.Selected, dec, enc)
	return res, nil
}
