package harness

import (
	"bytes"
	"crypto/sha1"
	"fmt"
	"time"

	"github.com/jech/storrent/config"
	"github.com/jech/storrent/known"
	"github.com/jech/storrent/tor"
	"github.com/jech/storrent/zzsim/refwire"
	"github.com/jech/storrent/zzsim/simnet"
	"github.com/jech/storrent/zzsim/simrt"
)

// C12: a torrent added by info-hash accepts only authentic metadata,
// whatever peers send, and still completes once honest peers are heard.

func init() {
	Register(&Scenario{
		Name: "magnet", Knobs: true, Props: []string{"C12"}, CrashTo: "C12",
		Also:    map[string]int{"C18": 1}, // C18: what a proxied magnet torrent tells the peers it dials
		Horizon: 3 * time.Hour, MaxSteps: 2000000, Weight: 1, Main: magnetMain,
	})
}

// geometryProblems is the self-consistency predicate of a torrent whose
// metadata is complete (the same predicate C13 states for torrent files).
func geometryProblems(t *tor.Torrent) []string {
	var out []string
	ps := int64(t.Pieces.PieceSize())
	L := t.Pieces.Length()
	if ps <= 0 || ps%chunkSize != 0 {
		out = append(out, fmt.Sprintf("piece length %d is not a positive multiple of 16 KiB", ps))
		return out
	}
	if L < 0 {
		out = append(out, fmt.Sprintf("negative length %d", L))
		return out
	}
	np := int((L + ps - 1) / ps)
	if t.Pieces.Num() != np {
		out = append(out, fmt.Sprintf("%d piece slots for length %d / piece length %d", t.Pieces.Num(), L, ps))
	}
	if len(t.PieceHashes) != np {
		out = append(out, fmt.Sprintf("%d piece hashes for %d pieces", len(t.PieceHashes), np))
	}
	if n := len(t.SimInFlight()); int64(n) != (L+chunkSize-1)/chunkSize {
		out = append(out, fmt.Sprintf("%d in-flight slots for %d blocks", n, (L+chunkSize-1)/chunkSize))
	}
	if t.Files != nil {
		off := int64(0)
		for i, f := range t.Files {
			if f.Offset != off || f.Length < 0 {
				out = append(out, fmt.Sprintf("file %d at offset %d length %d, expected offset %d", i, f.Offset, f.Length, off))
				break
			}
			off += f.Length
		}
		if off != L {
			out = append(out, fmt.Sprintf("files sum to %d, length is %d", off, L))
		}
	}
	if t.Name == "" {
		out = append(out, "no name")
	}
	return out
}

// buildInfo builds an info dictionary of about the wanted size, possibly
// degenerate.  It returns the dictionary and whether a conforming client
// may accept it.
func buildInfo(st *simrt.Stream, spec *TorSpec, wantSize int, degenerate int) ([]byte, bool, string) {
	info := map[string]any{"name": spec.Name, "piece length": spec.Geo.PieceSize, "length": spec.Geo.Length}
	var pieces []byte
	for _, h := range spec.Hashes {
		pieces = append(pieces, h...)
	}
	info["pieces"] = pieces
	ok := true
	what := "well-formed"
	switch degenerate {
	case 1:
		info["piece length"] = 0
		ok, what = false, "piece length 0"
	case 2:
		info["piece length"] = simrt.Pick(st, 1, 16383, 16385, 1000)
		ok, what = false, "piece length not a multiple of 16 KiB"
	case 3:
		info["length"] = -spec.Geo.Length
		ok, what = false, "negative length"
	case 4:
		info["pieces"] = pieces[:len(pieces)-1-st.Choice(19)]
		ok, what = false, "pieces not a multiple of 20 bytes"
	case 5:
		if st.Bool(1, 2) {
			info["pieces"] = append(bytes.Clone(pieces), make([]byte, 20*(1+st.Choice(3)))...)
			what = "too many piece hashes"
		} else {
			info["pieces"] = pieces[:max(0, len(pieces)-20*(1+st.Choice(2)))]
			what = "too few piece hashes"
		}
		ok = false
	case 6:
		delete(info, "name")
		ok, what = false, "no name"
	case 7:
		info["files"] = []any{map[string]any{"length": spec.Geo.Length, "path": []any{"a"}}}
		ok, what = false, "both length and files"
	case 8:
		delete(info, "length")
		info["files"] = []any{
			map[string]any{"length": spec.Geo.Length + 5000, "path": []any{"a"}},
			map[string]any{"length": -5000, "path": []any{"b"}},
		}
		ok, what = false, "a file of negative length"
	case 9:
		info["length"] = int64(1) << simrt.Pick(st, 62, 45, 40)
		ok, what = false, "absurd length"
	case 10:
		delete(info, "length")
		ok, what = false, "neither length nor files"
	case 11:
		info["piece length"] = int64(1) << 32
		ok, what = false, "piece length 2^32"
	}
	b := refwire.BEncode(info)
	if pad := wantSize - len(b) - 20; pad > 0 {
		info["x-pad"] = make([]byte, pad)
		b = refwire.BEncode(info)
		for len(b) < wantSize {
			info["x-pad"] = append(info["x-pad"].([]byte), 0)
			b = refwire.BEncode(info)
		}
	}
	return b, ok, what
}

func magnetMain(rc *RunCtx) {
	st := rc.St
	w := NewWorld(rc)
	defer w.Shutdown()
	spec := GenTorSpec(st, SpecOpts{MaxPieces: 6, MultiFile: 1})
	// the info dictionary: any size, in particular around multiples of 16 KiB
	want := simrt.Pick(st, 0, 16384, 16383, 16385, 32768, 32769, 49151, 100000, 200*1024, 1+st.Choice(70000))
	degenerate := 0
	if st.Bool(1, 4) {
		degenerate = 1 + st.Choice(11)
	}
	info, acceptable, what := buildInfo(st, spec, want, degenerate)
	spec.Info = info
	h := sha1.Sum(info)
	spec.InfoHash = h[:]
	nb := (len(info) + 16383) / 16384
	config.SetIdleRate(0)
	// one run in seven (by run index, so that the choice stream of the
	// others is what it was): the magnet link is added behind a proxy.  Such
	// a torrent refuses incoming connections, so its peers are dialled; what
	// it tells them while and after it learns its metadata is C18's subject.
	proxy := ""
	if rc.Index%7 == 6 {
		proxy = "socks5://127.0.0.1:9050"
	}
	t, err := w.AddTorrent(spec, true, proxy)
	if err != nil {
		rc.Fail("C12", "setup", "", "AddTorrent(magnet): %v", err)
		return
	}
	join := func(p *RefPeer) {
		if proxy != "" {
			t.AddKnown(p.Addr, nil, "", known.Tracker)
		} else {
			p.Connect()
		}
	}
	if proxy != "" {
		defer func() {
			for _, d := range w.Dials {
				if d.Via != proxy {
					rc.Fail("C18", "proxy-bypass", "magnet-dial-"+d.Network, "a proxied magnet torrent dialled %s %s via %q", d.Network, d.Addr, d.Via)
					break
				}
			}
		}()
	}
	w.Link = func() (simnet.LinkCfg, simnet.LinkCfg) { return drawSysLink(st) }
	nhonest := 1 + st.Choice(3)
	nhostile := st.Choice(4)
	if degenerate != 0 {
		nhostile = st.Choice(2)
	}
	if proxy != "" {
		nhostile = 0 // they could not get in
	}
	rc.SetSample("setup", fmt.Sprintf("info dictionary of %d bytes (%d blocks, %d mod 16384), %s; %d honest peers, %d hostile", len(info), nb, len(info)%16384, what, nhonest, nhostile))
	var honest []*RefPeer
	for i := 0; i < nhonest; i++ {
		cfg := drawSeedCfg(st, fmt.Sprintf("honest%d", i), 7000+i)
		cfg.Ext = true
		cfg.MetadataSize = -1
		p := w.NewPeer(spec, cfg)
		honest = append(honest, p)
		// honest peers arrive at different times
		d := time.Duration(st.Choice(20000)) * time.Millisecond
		simrt.GoNamed("arrive-"+cfg.Name, func() {
			simrt.Sleep(d)
			join(p)
		})
	}
	hostileActive := nhostile > 0
	hostileVotes := 0
	hj := &Join{n: nhostile}
	for i := 0; i < nhostile; i++ {
		i := i
		rounds := 1 + st.Choice(4)
		simrt.GoNamed(fmt.Sprintf("hostile-driver%d", i), func() {
			defer hj.Done()
			for r := 0; r < rounds && !rc.Failed() && !t.InfoComplete(); r++ {
				tl := int64(len(info))
				lie := simrt.Pick(st, tl, 1, tl-1, tl+1, tl+16384, 128<<20, 128<<20+1, 1<<32-1, 0)
				cfg := PeerCfg{
					Name: fmt.Sprintf("hostile%d-%d", i, r), Fast: st.Bool(1, 2), Ext: true, MetadataSize: lie,
					Have: func(int) bool { return true }, Advertise: 3, Reqq: -1, UnchokeAfter: -1, NoMonitor: true,
				}
				mode := st.Choice(10)
				var p *RefPeer
				cfg.OnMessage = func(_ *RefPeer, m refwire.Message) bool {
					e, ok := m.(refwire.Extended)
					if !ok || e.SubID != 3 {
						return false
					}
					mm, err := refwire.DecodeMetadata(e.Payload, true)
					if err != nil || mm.Type != refwire.MetadataRequest {
						return true
					}
					id, ok := p.SysExtIDs["ut_metadata"]
					if !ok {
						return true
					}
					reply := refwire.MetadataMsg{Type: refwire.MetadataData, Piece: mm.Piece, TotalSize: tl, HasTotalSize: true}
					lo := mm.Piece * 16384
					if lo >= 0 && lo < tl {
						reply.Data = bytes.Clone(info[lo:min(lo+16384, tl)])
					}
					simrt.Fault(fmt.Sprintf("hostile-metadata-mode-%d", mode))
					var trailer *refwire.MetadataMsg
					switch mode {
					case 0: // corrupt contents
						if len(reply.Data) > 0 {
							reply.Data[st.Choice(len(reply.Data))] ^= 0x11
						}
					case 1: // wrong index
						reply.Piece = simrt.Pick(st, int64(nb), int64(nb)+1, 1<<32-1, mm.Piece+1)
						if st.Bool(1, 2) {
							reply.Data = drawBytes(st, 16384)
						}
					case 2: // wrong payload length
						reply.Data = drawBytes(st, simrt.Pick(st, 0, 1, 16383, 16385, 100))
					case 3: // wrong total_size
						reply.TotalSize = simrt.Pick(st, tl+1, tl-1, 0, 128<<20, 1<<32-1)
					case 4: // the right block twice, then a corrupt copy
						p.Send(refwire.Extended{SubID: uint8(id), Payload: refwire.EncodeMetadata(reply)})
						p.Send(refwire.Extended{SubID: uint8(id), Payload: refwire.EncodeMetadata(reply)})
						if len(reply.Data) > 0 {
							reply.Data[0] ^= 0xff
						}
					case 5: // reject
						reply = refwire.MetadataMsg{Type: refwire.MetadataReject, Piece: mm.Piece}
					case 6: // silence
						return true
					case 7: // an unsolicited block for another index as well
						o := refwire.MetadataMsg{Type: refwire.MetadataData, Piece: int64(st.Choice(nb + 2)), TotalSize: tl, HasTotalSize: true, Data: drawBytes(st, 16384)}
						p.Send(refwire.Extended{SubID: uint8(id), Payload: refwire.EncodeMetadata(o)})
						if len(reply.Data) > 0 {
							reply.Data[len(reply.Data)-1] ^= 1
						}
					case 9: // consistent with its lie: blocks of a (forged) dictionary of the size it voted for
						if lie > 0 && lie <= 128<<20 {
							reply.TotalSize = lie
							if n := min(16384, lie-mm.Piece*16384); n > 0 {
								reply.Data = drawBytes(st, int(n))
							}
						}
					case 8: // a corrupt block, and right behind it a block that states no (or another) total size
						if len(reply.Data) > 0 {
							reply.Data[st.Choice(len(reply.Data))] ^= 0x22
						}
						trailer = &refwire.MetadataMsg{Type: refwire.MetadataData, Piece: int64(st.Choice(nb + 1)), Data: drawBytes(st, simrt.Pick(st, 16384, 1, int(tl%16384)))}
						if st.Bool(1, 2) {
							trailer.HasTotalSize, trailer.TotalSize = true, simrt.Pick(st, int64(0), tl, tl-1)
						}
					}
					p.Send(refwire.Extended{SubID: uint8(id), Payload: refwire.EncodeMetadata(reply)})
					if trailer != nil {
						p.Send(refwire.Extended{SubID: uint8(id), Payload: refwire.EncodeMetadata(*trailer)})
					}
					return true
				}
				p = w.NewPeer(spec, cfg)
				p.Connect()
				if lie != tl && lie > 0 && lie <= 128<<20 {
					hostileVotes++
				}
				simrt.Sleep(time.Duration(2+st.Choice(25)) * time.Second)
				p.Disconnect(false)
			}
		})
	}
	// watch: whenever the metadata is complete it must be authentic and consistent
	checked := false
	check := func() {
		if !t.InfoComplete() || checked {
			return
		}
		checked = true
		rc.Progress()
		got := sha1.Sum(t.Info)
		if !bytes.Equal(got[:], spec.InfoHash) {
			rc.Fail("C12", "forged-metadata", "", "the torrent became usable with metadata whose SHA-1 is %x; the magnet link says %x", got, spec.InfoHash)
		}
		if probs := geometryProblems(t); len(probs) > 0 {
			rc.Fail("C12", "inconsistent-geometry", what, "the torrent became usable with %s metadata: %v", what, probs)
		} else if !acceptable {
			rc.Fail("C12", "degenerate-accepted", what, "the torrent accepted an info dictionary with %s", what)
		}
	}
	hj.Wait()
	hostileActive = false
	_ = hostileActive
	check()
	rc.Tracef("hostile peers are gone (%d wrong size votes were cast)", hostileVotes)
	// bounded liveness: honest peers keep serving
	limit := time.Duration(nb+2) * 60 * time.Second
	deadline := time.Now().Add(limit)
	for time.Now().Before(deadline) && !t.InfoComplete() && !rc.Failed() {
		simrt.Sleep(time.Second)
		for _, p := range honest {
			if p.Closed && p.CloseErr != "" {
				join(p)
			}
		}
	}
	check()
	if rc.Failed() {
		return
	}
	if proxy != "" {
		// when and how often the system dials is not C12's business: no
		// liveness verdict here.  What the peers were told is C18's.
		simrt.Sleep(30 * time.Second)
		for _, p := range honest {
			if p.Inbound && p.Ready {
				rc.Fail("C18", "incoming-accepted", "magnet", "a proxied magnet torrent accepted the incoming connection of %s", p.Cfg.Name)
			}
			for k, h := range p.SysExtAll {
				if h.HasV || h.HasP || h.IPv6 != nil {
					rc.Fail("C18", "handshake-reveals", "magnet", "extended handshake %d of %d that a proxied magnet torrent sent to %s (metadata complete now: %v) carries v=%q p=%d ipv6=%x", k+1, len(p.SysExtAll), p.Cfg.Name, t.InfoComplete(), h.V, h.P, h.IPv6)
					break
				}
			}
		}
		if t.InfoComplete() {
			simrt.Probe("proxied-magnet-completed")
		}
		return
	}
	if chClosed(t.Done) && !t.InfoComplete() {
		rc.Fail("C12", "liveness", "torrent-died", "the torrent stopped by itself (nobody deleted it) while its metadata was incomplete: something a peer sent ended its event loop, and it can never complete")
		return
	}
	if acceptable && !t.InfoComplete() {
		connected := 0
		for _, p := range honest {
			if p.Ready && !p.Closed {
				connected++
			}
		}
		class := "no-wrong-votes"
		switch {
		case hostileVotes > nhonest:
			class = "after-a-majority-of-wrong-size-votes"
		case hostileVotes == nhonest:
			class = "after-wrong-size-votes" // a tie
		case hostileVotes > 0:
			class = "after-a-minority-of-wrong-size-votes"
		}
		if connected > 0 {
			rc.Fail("C12", "liveness", class, "%v after the last hostile message the metadata (%d blocks) is still incomplete although %d honest peers are connected and serve it (wrong size votes cast earlier: %d, honest votes: %d)", limit, nb, connected, hostileVotes, nhonest)
		}
	}
	if !acceptable && t.InfoComplete() {
		// reported by check()
	}
	// a second look after more time: nothing may appear later either
	simrt.Sleep(30 * time.Second)
	checked = false
	check()
}
