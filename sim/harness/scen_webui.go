package harness

import (
	"bytes"
	"fmt"
	"github.com/jech/storrent/known"
	"net"
	"net/http"
	"net/http/httptest"
	"net/url"
	"strings"
	"time"

	"golang.org/x/net/html"

	"github.com/jech/storrent/config"
	"github.com/jech/storrent/tor"
	"github.com/jech/storrent/zzsim/refwire"
	"github.com/jech/storrent/zzsim/simrt"
)

// C19: the web UI is local-only and injection-free.  The hostile strings
// arrive the way an attacker's strings arrive: in metainfo, in a tracker's
// failure reason, in a peer's version string.

func init() {
	Register(&Scenario{
		Name: "webui", Props: []string{"C19"}, CrashTo: "",
		Horizon: 3 * time.Hour, MaxSteps: 2000000, Weight: 1, Main: webuiMain,
	})
}

// marker builds an attack string unique to its source.
func marker(n int, newline bool) string {
	s := fmt.Sprintf(`s%d<mk%da>"' onmk%db=1 x='y' &mk%dc; </title></textarea></td><mk%dd x`, n, n, n, n, n)
	if newline {
		s = fmt.Sprintf("l%d\r\nhttp://mk%de.example/\n#mk%df", n, n, n) + s
	}
	return s
}

var markerSources = map[int]string{1: "torrent name", 2: "tracker URL", 3: "web-seed URL", 4: "tracker failure reason", 5: "peer version string", 6: "file path", 7: "name of a torrent added by URL", 8: "directory name", 9: "peer id (client name taken from an Azureus-style id when the peer sends no version)", 10: "display name of a magnet link whose metadata is not known yet"}

// findInjection tokenises an HTML page and reports where a marker got out
// of the text it belongs to.
func findInjection(body []byte) (string, int) {
	z := html.NewTokenizer(bytes.NewReader(body))
	raw := false
	for {
		tt := z.Next()
		if tt == html.ErrorToken {
			break
		}
		tok := z.Token()
		switch tt {
		case html.StartTagToken, html.SelfClosingTagToken, html.EndTagToken:
			var n int
			var c byte
			if k, _ := fmt.Sscanf(tok.Data, "mk%d%c", &n, &c); k == 2 {
				return fmt.Sprintf("an element <%s> from the %s", tok.Data, markerSources[n]), n
			}
			for _, a := range tok.Attr {
				if k, _ := fmt.Sscanf(a.Key, "onmk%d%c", &n, &c); k == 2 {
					return fmt.Sprintf("an attribute %s=... from the %s on <%s>", a.Key, markerSources[n], tok.Data), n
				}
			}
			if tt == html.StartTagToken && (tok.Data == "script" || tok.Data == "style") {
				raw = true
			}
			if tt == html.EndTagToken && (tok.Data == "script" || tok.Data == "style") {
				raw = false
			}
		case html.TextToken:
			if raw {
				var n int
				if i := strings.Index(tok.Data, "mk"); i >= 0 {
					fmt.Sscanf(tok.Data[i:], "mk%d", &n)
					if n > 0 {
						return fmt.Sprintf("text from the %s inside a script/style element", markerSources[n]), n
					}
				}
			}
		}
	}
	// a raw, unescaped ampersand of a marker in text (inside a tag, i.e. in
	// an attribute value, a URL-escaped string may legitimately keep its '&')
	for from := 0; ; {
		i := bytes.Index(body[from:], []byte("&mk"))
		if i < 0 {
			break
		}
		i += from
		from = i + 1
		if bytes.LastIndexByte(body[:i], '<') > bytes.LastIndexByte(body[:i], '>') {
			continue
		}
		var n int
		fmt.Sscanf(string(body[i:]), "&mk%d", &n)
		return fmt.Sprintf("an unescaped '&' from the %s", markerSources[n]), n
	}
	return "", 0
}

func webuiMain(rc *RunCtx) {
	st := rc.St
	w := NewWorld(rc)
	defer w.Shutdown()
	config.DefaultUseTrackers = true
	config.DefaultUseWebseeds = false
	config.SetIdleRate(0)
	// which fields carry hostile strings in this run
	hostileName, hostileTrURL, hostileWsURL := st.Bool(1, 2), st.Bool(1, 2), st.Bool(1, 2)
	hostileReason, hostileVersion, hostilePaths := st.Bool(1, 2), st.Bool(1, 2), st.Bool(1, 2)
	name := "plain-name"
	if hostileName {
		name = marker(1, st.Bool(1, 2))
	}
	trURL := "http://tracker.example/announce"
	if hostileTrURL {
		trURL = "http://tracker.example/announce?k=" + marker(2, false)
	}
	wsURL := "http://ws.example/base/"
	if hostileWsURL {
		wsURL = "http://ws.example/base/" + marker(3, false) + "/"
	}
	multi := st.Bool(1, 2)
	opts := SpecOpts{MaxPieces: 3, Name: name, Trackers: [][]string{{trURL}}, URLList: []string{wsURL}, MultiFile: 1}
	if multi {
		opts.MultiFile = 2
		nl := st.Bool(1, 2)
		deep := st.Bool(1, 2)
		opts.FileNames = func(i int) []string {
			if hostilePaths {
				if deep {
					// a hostile directory shared by several sub-directories
					return []string{marker(8, false), fmt.Sprintf("sub%d", i%3), marker(6, nl) + fmt.Sprint(i)}
				}
				return []string{marker(8, false) + fmt.Sprint(i%2), marker(6, nl) + fmt.Sprint(i)}
			}
			return []string{fmt.Sprintf("dir%d", i%2), fmt.Sprintf("file %d.dat", i)}
		}
	}
	spec := GenTorSpec(st, opts)
	w.HTTP["tracker.example"] = func(w *World, req *http.Request, rec *HTTPRec) (*http.Response, error) {
		d := map[string]any{"interval": int64(1800), "peers": []byte{}}
		if hostileReason {
			d = map[string]any{"failure reason": marker(4, false)}
		}
		b := refwire.BEncode(d)
		return MakeResponse(200, nil, w.Body(req.Context(), b), int64(len(b))), nil
	}
	t, err := w.AddTorrent(spec, false, "")
	if err != nil {
		rc.Fail("C19", "setup", "", "AddTorrent: %v", err)
		return
	}
	// a second torrent arrives by URL through the UI itself
	spec2 := GenTorSpec(st, SpecOpts{MaxPieces: 2, Name: marker(7, false), MultiFile: 1})
	w.HTTP["files.example"] = func(w *World, req *http.Request, rec *HTTPRec) (*http.Response, error) {
		return MakeResponse(200, nil, w.Body(req.Context(), spec2.Torrent), int64(len(spec2.Torrent))), nil
	}
	// a peer with a hostile version string
	pc := drawSeedCfg(st, "peer", 7000)
	pc.Ext, pc.ExtP = true, 7000
	if hostileVersion {
		pc.ExtV = marker(5, false)
	}
	p := w.NewPeer(spec, pc)
	p.Connect()
	// a peer that sends no version at all: the UI falls back on the client
	// code inside an Azureus-style peer id, "-XXXXXX-"
	if st.Bool(1, 2) {
		pc2 := drawSeedCfg(st, "peer-without-version", 7001)
		pc2.Ext = st.Bool(1, 2)
		pc2.ID = append([]byte("-<mk9a>-"), drawBytes(st, 12)...)
		p2 := w.NewPeer(spec, pc2)
		if st.Bool(1, 2) {
			p2.Connect()
		} else {
			t.AddKnown(p2.Addr, pc2.ID, "", known.Tracker)
		}
		simrt.Probe("peer-id-with-markup")
	}
	// let the tracker be contacted (slow ticker) and the peer be known
	simrt.Sleep(time.Duration(25+st.Choice(30)) * time.Second)
	H := fmt.Sprintf("%x", spec.InfoHash)
	var extraHashes []string
	do := func(method, host, target string, form url.Values) *httptest.ResponseRecorder {
		var body *strings.Reader
		if form != nil {
			body = strings.NewReader(form.Encode())
		} else {
			body = strings.NewReader("")
		}
		req := httptest.NewRequest(method, "http://placeholder"+target, body)
		if form != nil {
			req.Header.Set("Content-Type", "application/x-www-form-urlencoded")
		}
		req.Host = host
		rec := httptest.NewRecorder()
		http.DefaultServeMux.ServeHTTP(rec, req)
		return rec
	}
	if st.Bool(2, 3) {
		rec := do("POST", "localhost:8088", "/?q=add", url.Values{"url": {"http://files.example/x.torrent"}})
		if rec.Code != http.StatusSeeOther {
			rc.Tracef("adding by URL returned %d: %s", rec.Code, rec.Body.String())
		}
	}
	// a magnet link with a display name, added through the UI; nobody
	// serves its metadata, so it stays "incomplete"
	if st.Bool(1, 2) {
		mh := drawBytes(st, 20)
		rec := do("POST", "localhost:8088", "/?q=add", url.Values{"url": {fmt.Sprintf("magnet:?xt=urn:btih:%x&dn=%s", mh, url.QueryEscape(marker(10, false)))}})
		if rec.Code != http.StatusSeeOther {
			rc.Tracef("adding a magnet returned %d: %s", rec.Code, rec.Body.String())
		} else {
			simrt.Probe("magnet-with-display-name-added")
			extraHashes = append(extraHashes, fmt.Sprintf("%x", mh))
		}
	}
	rc.SetSample("setup", fmt.Sprintf("hostile fields: name=%v tracker-url=%v webseed-url=%v failure-reason=%v peer-version=%v file-paths=%v multi-file=%v", hostileName, hostileTrURL, hostileWsURL, hostileReason, hostileVersion, hostilePaths && multi, multi))

	// ---- the routes
	var fileTargets []string
	if spec.Files == nil {
		fileTargets = append(fileTargets, "/"+H+"/"+url.PathEscape(spec.Name))
	} else {
		for _, f := range spec.Files {
			var parts []string
			for _, c := range f.Path {
				parts = append(parts, url.PathEscape(c))
			}
			fileTargets = append(fileTargets, "/"+H+"/"+strings.Join(parts, "/"))
		}
	}
	targets := []string{"/", "/?q=peers&hash=" + H, "/?q=add", "/?q=add&url=" + url.QueryEscape("http://files.example/y.torrent"), "/?q=delete&hash=" + H, "/?q=set&idle=12345&upload=54321", "/?q=set-torrent&hash=" + H + "&dht-mode=none", "/?q=bogus", "/" + H, "/" + H + "/", "/" + H + ".torrent", "/" + H + ".m3u", "/" + H + "/?playlist", fileTargets[st.Choice(len(fileTargets))], "/" + H + "/nosuchfile", "/0123", "/favicon.ico", "/debug/pprof/", "/debug/pprof/cmdline", "/debug/vars", "/metrics"}
	if spec.Files != nil {
		d := url.PathEscape(spec.Files[0].Path[0])
		targets = append(targets, "/"+H+"/"+d+"/", "/"+H+"/"+d+"/?playlist")
	}
	for _, h := range extraHashes {
		targets = append(targets, "/"+h+"/", "/?q=peers&hash="+h, "/", "/"+h+".m3u")
	}
	hosts := []string{"localhost:8088", "127.0.0.1:8088", "[::1]:8088", "localhost", "evil.example:8088", "localhost.evil.example:8088", "evil.example", "", "bad host:x", "LOCALHOST:8088", "localhost.:8088", "192.168.1.1.evil.example:80"}
	methods := []string{"GET", "HEAD", "POST", "PUT", "DELETE"}
	type stateSnap struct {
		count int
		conf  string
		idle  uint32
		up    float64
		nhttp int
	}
	snap := func() stateSnap {
		c, _ := t.GetConf()
		return stateSnap{tor.SimCount(), fmt.Sprintf("%+v", c), config.IdleRate(), config.UploadRate(), len(w.HTTPLog)}
	}
	nreq := 20 + st.Choice(60)
	for k := 0; k < nreq && !rc.Failed(); k++ {
		target := targets[st.Choice(len(targets))]
		host := hosts[st.Weighted(6, 2, 1, 1, 3, 3, 1, 1, 1, 1, 1, 1)]
		method := methods[st.Weighted(8, 2, 4, 1, 1)]
		local := false
		if h, _, err := net.SplitHostPort(host); err == nil {
			local = h == "localhost" || net.ParseIP(h) != nil
		}
		foreign := !local
		before := snap()
		if chClosed(t.Done) {
			break
		}
		rec := do(method, host, target, nil)
		body := rec.Body.Bytes()
		ct := rec.Header().Get("Content-Type")
		rc.Tracef("%s %s Host=%q -> %d %s %d bytes", method, target, host, rec.Code, ct, len(body))
		if foreign {
			simrt.Probe("foreign-host-request")
			if rec.Code != 403 && rec.Code != 400 {
				rc.Fail("C19", "foreign-host", fmt.Sprintf("status-%d", rec.Code), "%s %s with Host %q was answered with status %d, want 403 (or 400)", method, target, host, rec.Code)
				return
			}
			simrt.Sleep(time.Second)
			if after := snap(); after != before {
				rc.Fail("C19", "foreign-host", "state-changed", "%s %s with Host %q changed the client's state: %+v -> %+v", method, target, host, before, after)
				return
			}
			continue
		}
		rc.Progress()
		isFile := false // a file of the torrent, served as it is: not a generated page
		for _, ft := range fileTargets {
			if target == ft {
				isFile = true
			}
		}
		if rec.Code == 200 && strings.HasPrefix(ct, "text/html") && method != "HEAD" && !isFile {
			simrt.Probe("html-page-checked")
			if what, n := findInjection(body); what != "" {
				rc.Fail("C19", "html-injection", markerSources[n], "%s %s: the page contains %s", method, target, what)
				return
			}
		}
		if rec.Code == 200 && strings.Contains(ct, "mpegurl") && method == "GET" {
			simrt.Probe("playlist-checked")
			lines := strings.Split(strings.TrimSuffix(string(body), "\n"), "\n")
			nfiles := 1
			if spec.Files != nil {
				nfiles = 0
				dir := ""
				if i := strings.Index(target, H+"/"); i >= 0 {
					dir, _ = url.PathUnescape(strings.TrimSuffix(strings.TrimSuffix(target[i+len(H)+1:], "?playlist"), "/"))
				}
				for _, f := range spec.Files {
					if dir == "" || (len(f.Path) > 1 && f.Path[0] == dir) {
						nfiles++
					}
				}
			}
			if len(lines) != 1+2*nfiles {
				rc.Fail("C19", "playlist-lines", "", "%s: the playlist has %d lines for %d files, want %d", target, len(lines), nfiles, 1+2*nfiles)
				return
			}
			for i := 2; i < len(lines); i += 2 {
				u, err := url.Parse(lines[i])
				if err != nil || u.Host != host || !strings.HasPrefix(u.Path, "/"+H+"/") {
					rc.Fail("C19", "playlist-url", "", "%s: playlist line %d is %q", target, i, lines[i])
					return
				}
			}
		}
		// state-changing requests may have deleted the torrent: re-create what the next checks need
		if tor.Get(t.Hash) == nil {
			break
		}
	}
}
