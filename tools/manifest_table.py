NOTE = "Trusted base: the rewriter (/verif/tools/simrewrite), the simrt scheduler, the two-file go1.26.8 runtime overlay, testing/synctest, the independent reference implementations used as oracles. Sampling, not proof: see evidence for runs, distinct schedules, faults fired and probes hit."

CLAIMED = {
 "C01": {"ref": "DESIGN.md section 3 C01",
         "text": "Seeded exploration of interleavings of the real piece store (AddData/Finalise/ReadAt/Expire/Del and the lock-free flags) under a scheduler that preempts at every lock, atomic and sleep of tor/piece/piece.go, with corrupt/duplicate/misaligned/over-long blocks, wrong hashes, evictions, deletion and allocation failures; oracles: every byte read equals ground truth at its offset, and every successful read or 'complete' observation overlaps a verified-and-not-yet-discarded window (interval rule over the recorded history); no crash. Exploration is the right level: the property quantifies over schedules and histories of a concurrent store whose dangerous states exist only in interleavings.",
         "note": NOTE},
 "C03": {"ref": "DESIGN.md section 3 C03",
         "text": "Same store-level simulation as C01 over one to three stores sharing the allocator; oracles at quiescent points: alloc.Bytes() equals the total size of live piece buffers, Count()/Bytes() agree with them, a sequential Expire reaches its target evicting least-recently-used first and reports exactly the complete pieces it dropped, Del releases everything and nothing is allocated afterwards; the memory manager never panics.",
         "note": NOTE},
 "C04": {"ref": "DESIGN.md section 3 C04",
         "text": "The real protocol.Read (directly, with exact consumption accounting on its bufio.Reader, and through the real protocol.Reader goroutine) consumes generated streams over a simulated connection: valid frames from an independent encoder, frames with altered announced lengths (0..2^32-1), every id with random payloads, hostile bencode, delivered whole / cut at any byte / byte-at-a-time, ending in EOF or reset at any byte. Oracles per call: message xor error, never (nil,nil); exactly 4+length bytes consumed on success; never beyond the frame on error; frames above 1 MiB refused after 4 bytes; decoded message equals the independent reference decoder's; heap allocated during the call bounded by 512 KiB + 8 x announced length. The input dimension is sampled by a seeded structured generator, not enumerated; the simulator owns the stream (segmentation, truncation, failure).",
         "note": NOTE},
 "C06": {"ref": "DESIGN.md section 3 C06",
         "text": "Generated sequences of every message protocol.Write can emit go through a real protocol.Writer goroutine, a simulated connection with seeded segmentation/back-pressure and a real protocol.Reader goroutine; a wire tap feeds an independent codec. Oracles: storrent decodes its own stream back to the same sequence; the independent strict decoder cuts the byte stream into the same frames and (byte-identical or strictly decoded) the same content; the independent encoder's bytes for the same messages, partly handed over as pre-read 'init' bytes, decode in storrent to the same sequence under any cut pattern.",
         "note": NOTE},
 "C07": {"ref": "DESIGN.md section 3 C07",
         "text": "Plain and MSE handshakes between storrent and storrent, storrent and an independent MSE/BitTorrent implementation (both roles), with per-role seeded randomness so that the bytes each side sends are a function of the seed: every experiment is executed twice in one run, once with whole-write delivery and once under seeded segmentation of both directions (coalesced, random cuts, byte-at-a-time, 1-7 byte segments, a single cut at a drawn offset, delay and jitter). Oracles: the outcome tuple of each storrent end (success, info-hash, peer id, capability bits, cipher mode, bytes handed to the message layer) is identical in both executions; both ends agree with each other and with the plan; early bytes glued after the handshake (inside IA, glued to the handshake, or sent right after) arrive exactly once, in order, with nothing else.",
         "note": NOTE},
 "C08": {"ref": "DESIGN.md section 3 C08",
         "text": "(A) the 64 x 64 x 2 table of option pairs and handshake kinds is enumerated by run index for storrent<->storrent (complete every 13654 runs of the scenario), plus storrent against the independent MSE peer with every crypto_provide/crypto_select value including ones not offered; oracle: an independent four-line policy function - each completed connection is in a mode both ends permit, both ends report the same mode, a wire tap sees payload in clear iff the mode is plaintext, a select that was not offered is refused, default options interoperate with the independent implementation (independent key derivation). (C) crypto.Conn transparency: concurrent writers with sizes around the 32 KiB staging buffer, arbitrary read sizes, underlying short writes and write errors; the received plaintext is a concatenation of the accepted parts of the writes and errors are sticky. The dial-policy part (B of the design) is exercised by the system scenarios.",
         "note": NOTE},
}

PENDING = "check not built yet in this session (design in DESIGN.md section 3); not claimed until its scenario and oracles exist"
NOT_APPLICABLE = {
 "C13": "pure function of an input byte string (ReadTorrent/ReadMagnet/WriteTorrent): no schedule, clock, fault or second party for a simulator to own; see DESIGN.md section 4",
 "C20": "pure function of the file table and the lookup path: no schedule, clock, fault or second party; see DESIGN.md section 4",
}
for p in ["C02","C05","C09","C10","C11","C12","C14","C15","C16","C17","C18","C19"]:
    NOT_APPLICABLE[p] = PENDING
