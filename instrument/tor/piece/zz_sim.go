package piece

// Read-only accessors for the simulator's oracles.  They are called only at
// instants where no other goroutine is executing.

// SimBuffers returns, per piece, the capacity of its data buffer (0: none).
func (ps *Pieces) SimBuffers() []int {
	out := make([]int, len(ps.pieces))
	for i := range ps.pieces {
		if ps.pieces[i].data != nil {
			out[i] = cap(ps.pieces[i].data)
		}
	}
	return out
}

// SimStates returns the raw state word of every piece.
func (ps *Pieces) SimStates() []uint32 {
	out := make([]uint32, len(ps.pieces))
	for i := range ps.pieces {
		out[i] = ps.pieces[i].state
	}
	return out
}

// SimCount returns the unlocked non-empty piece counter.
func (ps *Pieces) SimCount() int { return ps.count }

// SimDeleted reports the deleted latch.
func (ps *Pieces) SimDeleted() bool { return ps.deleted }

// SimTimes returns the access time of every piece.
func (ps *Pieces) SimTimes() []uint32 {
	out := make([]uint32, len(ps.pieces))
	for i := range ps.pieces {
		out[i] = uint32(ps.pieces[i].time)
	}
	return out
}

// SimChunkBits returns the number of blocks present in a piece.
func (ps *Pieces) SimChunkBits(i int) int { return ps.pieces[i].bitmap.Count() }

// SimState returns the raw state word of one piece (0 incomplete, 1
// complete, 2 busy: being hashed).
func (ps *Pieces) SimState(i int) uint32 {
	if i < 0 || i >= len(ps.pieces) {
		return 0
	}
	return ps.pieces[i].state
}

// SimAnyBusy reports whether some piece is being hashed.
func (ps *Pieces) SimAnyBusy() bool {
	for i := range ps.pieces {
		if ps.pieces[i].state == 2 {
			return true
		}
	}
	return false
}

// SimData returns the buffer of piece i (nil if it holds none); read-only.
func (ps *Pieces) SimData(i int) []byte {
	if i < 0 || i >= len(ps.pieces) {
		return nil
	}
	return ps.pieces[i].data
}
