package harness

import (
	"bytes"
	"container/heap"
	"errors"
	"fmt"
	"io"
	"net"
	"net/netip"
	"sort"
	"time"

	"github.com/jech/storrent/zzsim/refmse"
	"github.com/jech/storrent/zzsim/refwire"
	"github.com/jech/storrent/zzsim/simnet"
	"github.com/jech/storrent/zzsim/simrt"
)

// RefPeer is a remote BitTorrent client built on the independent codec.  It
// has an honest core (serve what it has, answer requests, obey choke) whose
// every decision can be bent by its configuration, and it records
// everything the system sends with the epoch (number of quiescent points
// seen) at which it arrived.

type blk struct {
	Piece int
	Begin uint32
}

type RecvMsg struct {
	Tick  uint64
	At    time.Duration
	Epoch int
	Msg   refwire.Message
}

const (
	AnsRight = iota
	AnsReject
	AnsSilent
	AnsShort
	AnsEmpty
	AnsLong
	AnsMisplaced
	AnsCorrupt
	AnsWrongPiece
	AnsDuplicate
)

var ansNames = []string{"the right block", "reject", "silence", "a short block", "an empty block", "an over-long block", "a misplaced block", "a corrupt block", "a block of another piece", "the block twice"}

type PeerCfg struct {
	Name string
	IP   string
	Port int // listening port (0: none)

	Fast, Ext, DHT bool
	MSE            bool   // when we initiate: use the MSE handshake
	MSEProvide     uint32 // default 3
	ID             []byte

	Have func(i int) bool
	// HaveUnverifiable: in a sparse torrent, advertise also the pieces whose
	// hash in the metainfo is not the true one (a peer that claims
	// everything and delivers nothing: deep request pipelines at no cost)
	HaveUnverifiable bool
	Advertise        int // 0 bitfield; 1 have-all/have-none when possible; 2 individual haves; 3 nothing; 4 lazy bitfield (some pieces left out and announced by haves right behind it)
	Reqq             int // value advertised in the extended handshake; -1: absent
	// extended handshake
	ExtV         string
	ExtP         int   // advertised listening port (0: absent)
	MetadataSize int64 // -1: true size; 0: absent; else as given
	NoMetadata   bool  // do not offer ut_metadata
	NoPex        bool
	NoDontHave   bool

	Interested   bool          // tell the system we are interested
	UnchokeAfter time.Duration // <0: never unchoke the system
	AllowedFast  []int

	// how requests from the system are answered: weights per Ans* kind
	AnswerWeights []int
	AnswerDelay   func() time.Duration
	AnswerFn      func(p *RefPeer, r refwire.Request) int // overrides AnswerWeights

	OnMessage func(p *RefPeer, m refwire.Message) bool // true: handled, skip the default
	OnReady   func(p *RefPeer)                         // after the handshakes
	StopRead  bool                                     // never read (congestion)
	// ChokeUninterested: the peer chokes the system when it says "not
	// interested" and unchokes it again when it says "interested" (what
	// real seeds do; it stays an unchoking seed for whoever wants data)
	ChokeUninterested bool
	// LeaveAfterHandshake n > 0: with probability 1/n per connection the
	// peer closes (or resets) the connection as soon as the handshake is over
	LeaveAfterHandshake int
	NoKeepAlive         bool
	NoMonitor           bool // a peer that misbehaves on purpose does not judge the system's answers
}

type action struct {
	at  time.Time
	seq int
	fn  func()
}
type actionHeap []action

func (h actionHeap) Len() int { return len(h) }
func (h actionHeap) Less(i, j int) bool {
	if !h[i].at.Equal(h[j].at) {
		return h[i].at.Before(h[j].at)
	}
	return h[i].seq < h[j].seq
}
func (h actionHeap) Swap(i, j int) { h[i], h[j] = h[j], h[i] }
func (h *actionHeap) Push(x any)   { *h = append(*h, x.(action)) }
func (h *actionHeap) Pop() any {
	o := *h
	n := len(o)
	x := o[n-1]
	*h = o[:n-1]
	return x
}

type RefPeer struct {
	W    *World
	Cfg  PeerCfg
	Spec *TorSpec
	ID   []byte
	Addr netip.AddrPort

	conn     *simnet.Conn
	rw       io.ReadWriter
	dec      refwire.StreamDecoder
	Inbound  bool // we connected to the system
	Ready    bool
	Closed   bool
	CloseErr string
	stop     bool
	inLoop   bool
	actions  actionHeap
	aseq     int
	wake     simrt.WaitQ

	// what the system told us
	SysHS refwire.Handshake
	// RepliesToOurHandshake counts the connections we opened on which the
	// system answered our handshake with its own (never reset)
	RepliesToOurHandshake int
	SysExt                *refwire.ExtHandshake
	SysExtAll             []refwire.ExtHandshake // every extended handshake the system ever sent to this party (all connections)
	SysExtIDs             map[string]int64
	SysHave               map[int]bool
	SysBitfield           []byte
	SysHaveAll            bool
	SysInterested         bool
	SysUnchokedUs         bool
	Recv                  []RecvMsg
	Encrypted             bool

	// what we told the system
	Have        []bool
	ChokingSys  bool
	ChokeEpoch  int // epoch at which we last sent choke
	UnchokeSent bool
	HaveEpoch   map[int]int // epoch at which we advertised piece i
	DontEpoch   map[int]int // epoch at which we retracted piece i
	FastSent    map[int]bool
	SentReqq    int

	// requests from the system
	Outstanding    map[blk]*sysReq // received, not answered/cancelled
	ReqLog         []*sysReq
	MaxOutstanding int
	// requests we made to the system
	MyReqs           []*myReq
	chokesRecv       [][2]uint64 // (tick, epoch) of every choke received
	lastChokeEpoch   int         // epoch of the last choke we sent on this connection (-1: none)
	answerEpoch      map[blk]int // per block: epoch at which we last sent a piece or a reject naming it
	rawAdvertised    bool        // the scenario sent advertisements of its own
	everAdvertised   map[int]bool
	everUnchoked     bool
	PexAnnounced     map[string]bool // what the system has announced to us over PEX and not dropped
	PexMsgs          int
	writing          bool
	sentMisaddressed bool // we sent data under a wrong address: the system may take it for the answer to another request
	lastSend         time.Time
	wq               simrt.WaitQ
	OnEvent          func(ev string)
	Viol             func(prop, oracle, class, format string, args ...any)
}

type sysReq struct {
	Req         refwire.Request
	Tick        uint64
	Epoch       int
	Answered    bool
	Cancelled   bool
	AnswerEpoch int
	Kind        int
}

type myReq struct {
	Req           refwire.Request
	Tick          uint64
	Epoch         int
	WhileUnchoked bool
	UnchokeGen    int
	Cancelled     bool
	CancelEpoch   int
	Answered      int
	Rejected      bool
}

func (w *World) NewPeer(spec *TorSpec, cfg PeerCfg) *RefPeer {
	p := &RefPeer{W: w, Cfg: cfg, Spec: spec, SysHave: map[int]bool{}, HaveEpoch: map[int]int{}, DontEpoch: map[int]int{}, FastSent: map[int]bool{}, Outstanding: map[blk]*sysReq{}, ChokingSys: true}
	p.ID = cfg.ID
	if p.ID == nil {
		p.ID = []byte(fmt.Sprintf("-RF0001-%012d", len(w.Peers)+1))
	}
	if cfg.IP == "" {
		cfg.IP = fmt.Sprintf("80.%d.%d.%d", 1+len(w.Peers)/200, 1+len(w.Peers)%200, 1+w.st.Choice(250))
		p.Cfg.IP = cfg.IP
	}
	ip, _ := netip.ParseAddr(cfg.IP)
	p.Addr = netip.AddrPortFrom(ip, uint16(cfg.Port))
	p.Have = make([]bool, spec.Geo.NPieces)
	for i := range p.Have {
		if cfg.Have != nil && cfg.Have(i) && (spec.Live(i) || cfg.HaveUnverifiable) {
			p.Have[i] = true // (nobody can hold a piece of a sparse torrent that cannot be verified)
		}
	}
	p.Viol = w.rc.Fail
	w.Peers = append(w.Peers, p)
	if cfg.Port > 0 {
		w.Listeners[p.Addr.String()] = func(c *simnet.Conn, via string) {
			if p.conn != nil && !p.Closed {
				c.Close() // one connection at a time
				return
			}
			p.resetConn()
			p.conn = c
			p.Inbound = false
			simrt.GoNamed("refpeer-"+p.Cfg.Name, func() { p.run(false) })
		}
	}
	return p
}

func (p *RefPeer) resetConn() {
	p.Ready, p.Closed, p.CloseErr = false, false, ""
	p.dec = refwire.StreamDecoder{}
	p.SysExt, p.SysExtIDs = nil, nil
	p.SysHave = map[int]bool{}
	p.SysBitfield, p.SysHaveAll = nil, false
	p.SysInterested, p.SysUnchokedUs = false, false
	p.ChokingSys, p.UnchokeSent = true, false
	p.lastChokeEpoch = -1
	p.answerEpoch = nil
	p.Outstanding = map[blk]*sysReq{}
	p.actions = nil
	p.everAdvertised = map[int]bool{}
	p.everUnchoked = false
	p.PexAnnounced = map[string]bool{}
	p.HaveEpoch, p.DontEpoch, p.FastSent = map[int]int{}, map[int]int{}, map[int]bool{}
	p.MyReqs, p.chokesRecv, p.ReqLog = nil, nil, nil
}

// Connect opens a connection to the system's listening port.
func (p *RefPeer) Connect() {
	p.resetConn()
	port := p.W.nextPort()
	p.conn = p.W.Inbound(&net.TCPAddr{IP: net.ParseIP(p.Cfg.IP), Port: port})
	p.Inbound = true
	simrt.GoNamed("refpeer-"+p.Cfg.Name, func() { p.run(true) })
}

// busy: the peer has work it has not finished (used by the quiescence predicate)
func (p *RefPeer) busy() bool { return false }

func (p *RefPeer) Stop() {
	p.stop = true
	if p.conn != nil && !p.Closed {
		p.conn.Close()
	}
	p.wake.Wake()
}

// Disconnect closes the connection abruptly.
func (p *RefPeer) Disconnect(reset bool) {
	if p.conn == nil || p.Closed {
		return
	}
	if reset {
		p.conn.Reset()
	}
	p.conn.Close()
	p.Closed = true
}

func (p *RefPeer) event(ev string) {
	if p.OnEvent != nil {
		p.OnEvent(ev)
	}
}

// After schedules fn on the peer's own goroutine.
func (p *RefPeer) After(d time.Duration, fn func()) {
	p.aseq++
	heap.Push(&p.actions, action{time.Now().Add(d), p.aseq, fn})
	if p.inLoop {
		// called from another goroutine while the loop is blocked: wake it
		if p.Cfg.StopRead {
			p.wake.Wake()
		} else {
			p.conn.SetReadDeadline(time.Now())
		}
	}
}

func (p *RefPeer) handshake(initiate bool) error {
	c := p.conn
	c.SetDeadline(time.Now().Add(2 * time.Minute))
	var hs refwire.Handshake
	hs.SetExtended(p.Cfg.Ext)
	hs.SetFast(p.Cfg.Fast)
	hs.SetDHT(p.Cfg.DHT)
	copy(hs.InfoHash[:], p.Spec.InfoHash)
	copy(hs.PeerID[:], p.ID)
	p.rw = c
	rnd := simrt.NewRaw(uint64(len(p.Cfg.Name))*977 + uint64(p.W.st.Choice(1<<20)))
	if initiate {
		if p.Cfg.MSE {
			prov := p.Cfg.MSEProvide
			if prov == 0 {
				prov = 3
			}
			res, err := refmse.Initiate(c, refmse.Options{Rand: rnd, Provide: prov, PadLen: -1, PadCLen: 0, IA: hs.Bytes(), SKeys: [][]byte{p.Spec.InfoHash}})
			if err != nil {
				return err
			}
			p.rw = res.RW
			p.Encrypted = res.Selected == refmse.CryptoRC4
		} else if _, err := c.Write(hs.Bytes()); err != nil {
			return err
		}
		reply := make([]byte, 68)
		if _, err := io.ReadFull(p.rw, reply); err != nil {
			return err
		}
		sh, err := refwire.ParseHandshake(reply)
		if err != nil {
			return err
		}
		p.SysHS = sh
		p.RepliesToOurHandshake++
		return nil
	}
	// responder: plain or MSE, decided by the first bytes
	first := make([]byte, 20)
	if _, err := io.ReadFull(c, first); err != nil {
		return err
	}
	var got []byte
	if first[0] == 19 && string(first[1:20]) == refwire.ProtocolString {
		got = first
	} else {
		res, err := refmse.Respond(prefixConn{c, first}.rw(), refmse.Options{Rand: rnd, PadLen: -1, PadCLen: 0, SKeys: [][]byte{p.Spec.InfoHash}})
		if err != nil {
			return err
		}
		p.rw = res.RW
		p.Encrypted = res.Selected == refmse.CryptoRC4
		got = res.IA
	}
	for len(got) < 68 {
		buf := make([]byte, 68-len(got))
		n, err := p.rw.Read(buf)
		got = append(got, buf[:n]...)
		if err != nil {
			return err
		}
	}
	sh, err := refwire.ParseHandshake(got[:68])
	if err != nil {
		return err
	}
	if !bytes.Equal(sh.InfoHash[:], p.Spec.InfoHash) {
		return errors.New("unknown info-hash")
	}
	p.SysHS = sh
	if len(got) > 68 {
		p.dec.Write(got[68:])
	}
	_, err = p.rw.Write(hs.Bytes())
	return err
}

type prefixConn struct {
	c   *simnet.Conn
	pre []byte
}

type prefixRW struct {
	r io.Reader
	w io.Writer
}

func (p prefixRW) Read(b []byte) (int, error)  { return p.r.Read(b) }
func (p prefixRW) Write(b []byte) (int, error) { return p.w.Write(b) }
func (p prefixConn) rw() io.ReadWriter {
	return prefixRW{io.MultiReader(bytes.NewReader(p.pre), p.c), p.c}
}

func (p *RefPeer) run(initiate bool) {
	defer func() {
		p.Closed = true
		p.Ready = false
		if p.conn != nil {
			p.conn.Close()
		}
		p.event("closed")
	}()
	if err := p.handshake(initiate); err != nil {
		p.CloseErr = "handshake: " + err.Error()
		p.W.rc.Tracef("%s: handshake failed: %v", p.Cfg.Name, err)
		return
	}
	p.conn.SetDeadline(time.Time{})
	p.W.rc.Tracef("%s: connected (inbound=%v encrypted=%v sys fast=%v ext=%v)", p.Cfg.Name, p.Inbound, p.Encrypted, p.SysHS.Fast(), p.SysHS.Extended())
	if p.Cfg.LeaveAfterHandshake > 0 && p.W.st.Bool(1, p.Cfg.LeaveAfterHandshake) {
		// gone as soon as the handshake is over (a port scanner, a client
		// that only wanted the peer id): the system's first writes fail
		simrt.Fault("peer-leaves-right-after-handshake")
		for n := p.W.st.Choice(4); n > 0; n-- {
			simrt.Y(-1)
		}
		if p.W.st.Bool(1, 2) {
			p.conn.Reset()
		}
		return
	}
	p.sendPreamble()
	p.Ready = true
	p.event("ready")
	if p.Cfg.OnReady != nil {
		p.Cfg.OnReady(p)
	}
	buf := make([]byte, 32768)
	for !p.stop && !p.Closed {
		// run due actions
		now := time.Now()
		for len(p.actions) > 0 && !p.actions[0].at.After(now) {
			a := heap.Pop(&p.actions).(action)
			a.fn()
			if p.Closed || p.stop {
				return
			}
		}
		if p.Cfg.StopRead {
			d := time.Hour
			if len(p.actions) > 0 {
				d = time.Until(p.actions[0].at)
			}
			p.inLoop = true
			p.wake.Wait(max(d, time.Microsecond))
			p.inLoop = false
			continue
		}
		// keep-alive, as every client sends
		if !p.Cfg.NoKeepAlive && time.Since(p.lastSend) >= 100*time.Second {
			p.Send(refwire.KeepAlive{})
		}
		dl := p.lastSend.Add(100 * time.Second)
		if p.Cfg.NoKeepAlive {
			dl = time.Now().Add(10 * time.Minute)
		}
		if len(p.actions) > 0 && p.actions[0].at.Before(dl) {
			dl = p.actions[0].at
		}
		p.conn.SetReadDeadline(dl)
		p.inLoop = true
		n, err := p.rw.Read(buf)
		p.inLoop = false
		if n > 0 {
			p.dec.Write(buf[:n])
			for {
				m, ok, derr := p.dec.Next()
				if derr != nil {
					p.Viol("C11", "undecodable", "", "%s: the reference codec cannot decode what the system sent: %v", p.Cfg.Name, derr)
					p.CloseErr = "decode: " + derr.Error()
					return
				}
				if !ok {
					break
				}
				p.receive(m)
				if p.Closed || p.stop {
					return
				}
			}
		}
		if err != nil {
			var ne net.Error
			if errors.As(err, &ne) && ne.Timeout() {
				continue
			}
			p.CloseErr = err.Error()
			return
		}
	}
}

func (p *RefPeer) Send(m refwire.Message) error {
	// a reject or a piece names a block, not a request: the system may take
	// it for the answer to whichever request for that block it has
	// outstanding when it arrives
	switch a := m.(type) {
	case refwire.RejectRequest:
		p.noteAnswerSent(blk{int(a.Index), a.Begin})
	case refwire.Piece:
		p.noteAnswerSent(blk{int(a.Index), a.Begin})
	}
	if p.W.rc.S.LogOn() {
		if _, isPiece := m.(refwire.Piece); !isPiece {
			p.W.rc.S.Logf("%s sends %s", p.Cfg.Name, briefMsg(m))
		}
	}
	return p.SendRaw(refwire.Encode(m))
}

// SendRaw writes bytes as they are (one writer at a time: a write may
// block on the window, and frames must not interleave).
func (p *RefPeer) SendRaw(b []byte) error {
	for p.writing {
		p.wq.Wait(0)
	}
	if p.Closed || p.conn == nil {
		return net.ErrClosed
	}
	p.writing = true
	p.lastSend = time.Now()
	_, err := p.rw.Write(b)
	p.writing = false
	p.wq.Wake()
	return err
}

func (p *RefPeer) sendPreamble() {
	c := p.Cfg
	if c.Ext && p.SysHS.Extended() {
		h := refwire.ExtHandshake{M: map[string]int64{}}
		if !c.NoMetadata {
			h.M["ut_metadata"] = 3
		}
		if !c.NoPex {
			h.M["ut_pex"] = 1
		}
		if !c.NoDontHave {
			h.M["lt_donthave"] = 7
		}
		if c.ExtV != "" {
			h.V, h.HasV = c.ExtV, true
		}
		if c.ExtP != 0 {
			h.P, h.HasP = int64(c.ExtP), true
		}
		p.SentReqq = -1
		if c.Reqq >= 0 {
			h.Reqq, h.HasReqq = int64(c.Reqq), true
			p.SentReqq = c.Reqq
		}
		switch {
		case c.MetadataSize < 0:
			h.MetadataSize, h.HasMetadataSize = int64(len(p.Spec.Info)), true
		case c.MetadataSize > 0:
			h.MetadataSize, h.HasMetadataSize = c.MetadataSize, true
		}
		p.Send(refwire.Extended{SubID: 0, Payload: refwire.EncodeExtHandshake(h)})
	} else {
		p.SentReqq = -1
	}
	all, none := true, true
	for _, h := range p.Have {
		if h {
			none = false
		} else {
			all = false
		}
	}
	fast := c.Fast && p.SysHS.Fast()
	switch {
	case c.Advertise == 3:
	case c.Advertise == 1 && fast && all:
		p.Send(refwire.HaveAll{})
		p.noteAdvertised()
	case c.Advertise == 1 && fast && none:
		p.Send(refwire.HaveNone{})
	case c.Advertise == 2:
		if fast {
			p.Send(refwire.HaveNone{})
		}
		for i, h := range p.Have {
			if h {
				p.Send(refwire.Have{Index: uint32(i)})
			}
		}
		p.noteAdvertised()
	case c.Advertise == 4 && !none:
		// a lazy bitfield: a few pieces are left out of the bitfield and
		// announced by have messages in the same burst
		bits := p.bitfield()
		var later []int
		for i, h := range p.Have {
			if h && p.W.st.Bool(1, 3) {
				bits[i/8] &^= 0x80 >> uint(i%8)
				later = append(later, i)
			}
		}
		p.Send(refwire.Bitfield{Bits: bits})
		for _, i := range later {
			p.Send(refwire.Have{Index: uint32(i)})
		}
		simrt.Probe("lazy-bitfield")
		p.noteAdvertised()
	default:
		if !none || !fast {
			p.Send(refwire.Bitfield{Bits: p.bitfield()})
		} else {
			p.Send(refwire.HaveNone{})
		}
		p.noteAdvertised()
	}
	if fast {
		for _, i := range c.AllowedFast {
			p.Send(refwire.AllowedFast{Index: uint32(i)})
			p.FastSent[i] = true
		}
	}
	if c.Interested {
		p.Send(refwire.Interested{})
	}
	unchokeIfWanted := func() {
		if !c.ChokeUninterested || p.SysInterested {
			p.Unchoke()
		}
	}
	if c.UnchokeAfter == 0 {
		unchokeIfWanted()
	} else if c.UnchokeAfter > 0 {
		p.After(c.UnchokeAfter, unchokeIfWanted)
	}
}

// DrawAdvertise draws the way a peer announces its pieces.
func DrawAdvertise(st *simrt.Stream) int { return simrt.Pick(st, 0, 1, 2, 4) }

func (p *RefPeer) noteAnswerSent(k blk) {
	if p.answerEpoch == nil {
		p.answerEpoch = map[blk]int{}
	}
	p.answerEpoch[k] = p.W.Epoch
}

// settledFor reports whether the outstanding request r may already be
// settled on the system's side by an answer of ours that named its block:
// one we sent no earlier than the quiescent point before r arrived (it may
// have been in flight when the system sent r: the reject that answers the
// cancel of an earlier request for the same block, for instance).
func (p *RefPeer) settledFor(k blk, r *sysReq) bool {
	e, ok := p.answerEpoch[k]
	return ok && e >= r.Epoch
}

func (p *RefPeer) noteAdvertised() {
	if p.everAdvertised == nil {
		p.everAdvertised = map[int]bool{}
	}
	for i, h := range p.Have {
		if h {
			p.HaveEpoch[i] = p.W.Epoch
			p.everAdvertised[i] = true
		}
	}
}

func (p *RefPeer) bitfield() []byte {
	b := make([]byte, (len(p.Have)+7)/8)
	for i, h := range p.Have {
		if h {
			b[i/8] |= 0x80 >> uint(i%8)
		}
	}
	return b
}

func (p *RefPeer) Unchoke() {
	if p.Closed {
		return
	}
	p.ChokingSys = false
	p.UnchokeSent = true
	p.everUnchoked = true
	p.Send(refwire.Unchoke{})
}

func (p *RefPeer) Choke() {
	if p.Closed {
		return
	}
	p.ChokingSys = true
	p.ChokeEpoch = p.W.Epoch
	p.lastChokeEpoch = p.W.Epoch
	p.Send(refwire.Choke{})
	// BEP 6: with the fast extension a choke does not discard requests
	// implicitly: we reject them explicitly; without it they are void
	fast := p.Cfg.Fast && p.SysHS.Fast()
	var keys []blk
	for k := range p.Outstanding {
		keys = append(keys, k)
	}
	sort.Slice(keys, func(i, j int) bool {
		return keys[i].Piece < keys[j].Piece || (keys[i].Piece == keys[j].Piece && keys[i].Begin < keys[j].Begin)
	})
	for _, k := range keys {
		r := p.Outstanding[k]
		if fast && p.FastSent[k.Piece] {
			continue
		}
		if fast {
			p.Send(refwire.RejectRequest{Index: r.Req.Index, Begin: r.Req.Begin, Length: r.Req.Length})
		}
		r.Answered = true
		r.AnswerEpoch = p.W.Epoch
		delete(p.Outstanding, k)
	}
}

// SetHave changes what we have and tells the system.
func (p *RefPeer) SetHave(i int, have bool) {
	if p.Closed || i < 0 || i >= len(p.Have) || !p.Spec.Live(i) {
		return
	}
	if have {
		p.Have[i] = true
		if p.everAdvertised == nil {
			p.everAdvertised = map[int]bool{}
		}
		p.everAdvertised[i] = true
		p.HaveEpoch[i] = p.W.Epoch
		delete(p.DontEpoch, i)
		p.Send(refwire.Have{Index: uint32(i)})
		return
	}
	if id, ok := p.SysExtIDs["lt_donthave"]; ok && id > 0 {
		p.Have[i] = false
		p.DontEpoch[i] = p.W.Epoch
		p.Send(refwire.Extended{SubID: uint8(id), Payload: refwire.EncodeDontHave(uint32(i))})
	}
}

// ---- receiving ---------------------------------------------------------------------

func (p *RefPeer) receive(m refwire.Message) {
	p.Recv = append(p.Recv, RecvMsg{Tick: p.W.rc.Tick(), At: p.W.rc.S.Now(), Epoch: p.W.Epoch, Msg: m})
	if p.W.rc.S.LogOn() {
		if _, isPiece := m.(refwire.Piece); !isPiece {
			p.W.rc.S.Logf("%s receives %s", p.Cfg.Name, briefMsg(m))
		}
	}
	if !p.Cfg.NoMonitor {
		p.conform(m)
	}
	if p.Cfg.OnMessage != nil && p.Cfg.OnMessage(p, m) {
		return
	}
	switch m := m.(type) {
	case refwire.Choke:
		p.SysUnchokedUs = false
		p.chokesRecv = append(p.chokesRecv, [2]uint64{p.W.rc.tick, uint64(p.W.Epoch)})
		p.event("choked")
	case refwire.Unchoke:
		p.SysUnchokedUs = true
		p.event("unchoked")
	case refwire.Interested:
		p.SysInterested = true
		if p.Cfg.ChokeUninterested && p.ChokingSys && p.Cfg.UnchokeAfter >= 0 {
			p.After(time.Duration(p.W.st.Choice(500))*time.Millisecond, func() {
				if p.SysInterested && p.ChokingSys {
					p.Unchoke()
				}
			})
		}
	case refwire.NotInterested:
		p.SysInterested = false
		if p.Cfg.ChokeUninterested && !p.ChokingSys {
			// what seeds do: an upload slot is for somebody who wants data
			p.After(time.Duration(p.W.st.Choice(500))*time.Millisecond, func() {
				if !p.SysInterested && !p.ChokingSys {
					p.Choke()
				}
			})
		}
	case refwire.Have:
		p.SysHave[int(m.Index)] = true
	case refwire.Bitfield:
		p.SysBitfield = m.Bits
		for i := 0; i < len(m.Bits)*8; i++ {
			if m.Bits[i/8]&(0x80>>uint(i%8)) != 0 {
				p.SysHave[i] = true
			}
		}
	case refwire.HaveAll:
		p.SysHaveAll = true
		for i := 0; i < p.Spec.Geo.NPieces; i++ {
			p.SysHave[i] = true
		}
	case refwire.HaveNone:
		p.SysHave = map[int]bool{}
	case refwire.Request:
		p.onRequest(m)
	case refwire.Cancel:
		k := blk{int(m.Index), m.Begin}
		if r := p.Outstanding[k]; r != nil {
			r.Cancelled = true
			delete(p.Outstanding, k)
			if p.Cfg.Fast && p.SysHS.Fast() {
				p.Send(refwire.RejectRequest{Index: m.Index, Begin: m.Begin, Length: m.Length})
			}
		}
	case refwire.Piece:
		p.onPiece(m)
	case refwire.RejectRequest:
		found := false
		for _, r := range p.MyReqs {
			if r.Req.Index == m.Index && r.Req.Begin == m.Begin && r.Req.Length == m.Length && r.Answered == 0 && !r.Rejected {
				r.Rejected = true
				found = true
				break
			}
		}
		if p.Cfg.NoMonitor {
		} else if !(p.Cfg.Fast && p.SysHS.Fast()) {
			p.Viol("C16", "reject-without-fast", "", "%s: reject (%d, %d, %d) on a connection without the fast extension", p.Cfg.Name, m.Index, m.Begin, m.Length)
		} else if !found {
			p.Viol("C16", "reject-unknown", "", "%s: reject (%d, %d, %d) names no pending request of this connection", p.Cfg.Name, m.Index, m.Begin, m.Length)
		}
	case refwire.Extended:
		p.onExtended(m)
	}
}

func (p *RefPeer) onExtended(m refwire.Extended) {
	if m.SubID == 0 {
		h, err := refwire.DecodeExtHandshake(m.Payload, true)
		if err != nil {
			p.Viol("C11", "ext-handshake", "", "%s: the system's extended handshake is not strictly decodable: %v", p.Cfg.Name, err)
			return
		}
		p.SysExt = &h
		p.SysExtIDs = h.M
		p.SysExtAll = append(p.SysExtAll, h)
		return
	}
	// ids are the ones we announced: ut_pex 1, ut_metadata 3, lt_donthave 7
	switch m.SubID {
	case 3:
		mm, err := refwire.DecodeMetadata(m.Payload, true)
		if err != nil {
			return
		}
		if mm.Type == refwire.MetadataRequest {
			p.serveMetadata(mm.Piece)
		}
	case 7:
		if idx, err := refwire.DecodeDontHave(m.Payload); err == nil {
			delete(p.SysHave, int(idx))
		}
	}
}

func (p *RefPeer) serveMetadata(piece int64) {
	id, ok := p.SysExtIDs["ut_metadata"]
	if !ok || id <= 0 || p.Cfg.NoMetadata {
		return
	}
	info := p.Spec.Info
	lo := piece * 16384
	if lo < 0 || lo >= int64(len(info)) {
		p.Send(refwire.Extended{SubID: uint8(id), Payload: refwire.EncodeMetadata(refwire.MetadataMsg{Type: refwire.MetadataReject, Piece: piece})})
		return
	}
	hi := min(lo+16384, int64(len(info)))
	p.Send(refwire.Extended{SubID: uint8(id), Payload: refwire.EncodeMetadata(refwire.MetadataMsg{Type: refwire.MetadataData, Piece: piece, TotalSize: int64(len(info)), HasTotalSize: true, Data: info[lo:hi]})})
}

func (p *RefPeer) onRequest(m refwire.Request) {
	r := &sysReq{Req: m, Tick: p.W.rc.Tick(), Epoch: p.W.Epoch}
	p.ReqLog = append(p.ReqLog, r)
	k := blk{int(m.Index), m.Begin}
	fast := p.Cfg.Fast && p.SysHS.Fast()
	if p.ChokingSys && !(fast && p.FastSent[int(m.Index)]) {
		// a request while choked: rejected (fast) or ignored
		if fast {
			p.Send(refwire.RejectRequest{Index: m.Index, Begin: m.Begin, Length: m.Length})
		}
		r.Answered = true
		r.AnswerEpoch = p.W.Epoch
		r.Kind = AnsReject
		return
	}
	p.Outstanding[k] = r
	if len(p.Outstanding) > p.MaxOutstanding {
		p.MaxOutstanding = len(p.Outstanding)
	}
	kind := AnsRight
	if p.Cfg.AnswerFn != nil {
		kind = p.Cfg.AnswerFn(p, m)
	} else if len(p.Cfg.AnswerWeights) > 0 {
		kind = p.W.st.Weighted(p.Cfg.AnswerWeights...)
	}
	if int(m.Index) >= len(p.Have) || !p.Have[int(m.Index)] {
		kind = AnsReject
	}
	if kind == AnsReject && !fast {
		kind = AnsSilent
	}
	if !fast && p.lastChokeEpoch >= p.W.Epoch {
		// without the fast extension a request that arrives before a
		// quiescent point has followed our last choke may be one the system
		// has already written off (it handled the choke after sending it):
		// we do not answer it, so that our answer cannot be taken for the
		// answer to the request that replaces it (a peer may ignore a request)
		kind = AnsSilent
		simrt.Probe("request-in-the-wake-of-a-choke-ignored")
	}
	r.Kind = kind
	d := time.Duration(0)
	if p.Cfg.AnswerDelay != nil {
		d = p.Cfg.AnswerDelay()
	}
	p.After(d, func() { p.answer(r) })
}

func (p *RefPeer) answer(r *sysReq) {
	k := blk{int(r.Req.Index), r.Req.Begin}
	if p.Outstanding[k] != r || r.Cancelled || r.Answered {
		return
	}
	m := r.Req
	data := p.Spec.Block(int(m.Index), int64(m.Begin), int64(m.Length))
	done := func() {
		r.Answered = true
		r.AnswerEpoch = p.W.Epoch
		delete(p.Outstanding, k)
	}
	simrt.Probe(fmt.Sprintf("answer-kind-%d", r.Kind))
	if r.Kind != AnsReject && r.Kind != AnsSilent {
		for _, i := range p.Spec.LivePieces() {
			// any data we send may end up in any piece (misplaced, wrong index)
			if r.Kind == AnsRight || r.Kind == AnsDuplicate || r.Kind == AnsLong {
				p.W.noteHoldable(p.Spec, int(m.Index))
				break
			}
			p.W.noteHoldable(p.Spec, i)
		}
	}
	if r.Kind != AnsRight {
		p.W.rc.Tracef("%s answers request (%d, %d, %d) with %s", p.Cfg.Name, m.Index, m.Begin, m.Length, ansNames[r.Kind])
	}
	switch r.Kind {
	case AnsRight:
		p.Send(refwire.Piece{Index: m.Index, Begin: m.Begin, Data: data})
		done()
	case AnsReject:
		p.Send(refwire.RejectRequest{Index: m.Index, Begin: m.Begin, Length: m.Length})
		done()
	case AnsSilent:
		// never answered: stays outstanding until the system gives up
		simrt.Fault("peer-silent")
	case AnsShort:
		simrt.Fault("peer-short-block")
		if len(data) > 1 {
			data = data[:1+p.W.st.Choice(len(data)-1)]
		}
		p.Send(refwire.Piece{Index: m.Index, Begin: m.Begin, Data: data})
		done()
	case AnsEmpty:
		simrt.Fault("peer-empty-block")
		p.Send(refwire.Piece{Index: m.Index, Begin: m.Begin, Data: nil})
		done()
	case AnsLong:
		simrt.Fault("peer-overlong-block")
		extra := p.Spec.Block(int(m.Index), int64(m.Begin)+int64(len(data)), 16384)
		if len(extra) == 0 {
			extra = make([]byte, 1+p.W.st.Choice(100))
		}
		p.Send(refwire.Piece{Index: m.Index, Begin: m.Begin, Data: append(bytes.Clone(data), extra...)})
		done()
	case AnsMisplaced:
		p.sentMisaddressed = true
		simrt.Fault("peer-misplaced-block")
		p.Send(refwire.Piece{Index: m.Index, Begin: m.Begin + 16384*uint32(1+p.W.st.Choice(3)), Data: data})
		done()
	case AnsWrongPiece:
		p.sentMisaddressed = true
		simrt.Fault("peer-wrong-piece")
		o := uint32(p.W.st.Choice(p.Spec.Geo.NPieces))
		p.Send(refwire.Piece{Index: o, Begin: m.Begin, Data: data})
		done()
	case AnsCorrupt:
		simrt.Fault("peer-corrupt-block")
		d := bytes.Clone(data)
		if len(d) > 0 {
			d[p.W.st.Choice(len(d))] ^= 0x5a
		}
		p.Send(refwire.Piece{Index: m.Index, Begin: m.Begin, Data: d})
		done()
	case AnsDuplicate:
		p.Send(refwire.Piece{Index: m.Index, Begin: m.Begin, Data: data})
		p.Send(refwire.Piece{Index: m.Index, Begin: m.Begin, Data: data})
		done()
	}
}

// Request asks the system for a block (we are the leecher).
func (p *RefPeer) Request(index, begin, length uint32) {
	r := &myReq{Req: refwire.Request{Index: index, Begin: begin, Length: length}, Tick: p.W.rc.Tick(), Epoch: p.W.Epoch, WhileUnchoked: p.SysUnchokedUs}
	p.MyReqs = append(p.MyReqs, r)
	p.Send(r.Req)
}

func (p *RefPeer) CancelReq(index, begin, length uint32) {
	for _, r := range p.MyReqs {
		if r.Req.Index == index && r.Req.Begin == begin && r.Req.Length == length && !r.Cancelled && r.Answered == 0 {
			r.Cancelled = true
			r.CancelEpoch = p.W.Epoch
			break
		}
	}
	p.Send(refwire.Cancel{Index: index, Begin: begin, Length: length})
}

// onPiece: the system uploads to us.  The content check is the C01/C16
// content monitor at this exit point.
func (p *RefPeer) onPiece(m refwire.Piece) {
	if p.Cfg.NoMonitor {
		return
	}
	// ground truth by linear addressing: (index, begin) names the byte at
	// index*pieceSize+begin of the torrent
	var truth []byte
	if abs := int64(m.Index)*p.Spec.Geo.PieceSize + int64(m.Begin); abs >= 0 && abs+int64(len(m.Data)) <= p.Spec.Geo.Length {
		truth = p.Spec.Bytes(abs, int64(len(m.Data)))
	}
	if len(m.Data) > 0 && (truth == nil || !bytes.Equal(truth, m.Data)) {
		p.Viol("C16", "upload-content", "", "%s: piece message (%d, %d, %d bytes) does not carry the torrent's content at that range", p.Cfg.Name, m.Index, m.Begin, len(m.Data))
		p.Viol("C01", "upload-content", "", "%s: piece message (%d, %d, %d bytes) does not carry the torrent's content at that range", p.Cfg.Name, m.Index, m.Begin, len(m.Data))
	}
	voided := func(r *myReq) bool {
		// the request had reached the system before it choked us
		for _, c := range p.chokesRecv {
			if c[0] > r.Tick && int(c[1]) > r.Epoch {
				return true
			}
		}
		return false
	}
	cancelledForSure := func(r *myReq) bool { return r.Cancelled && p.W.Epoch > r.CancelEpoch }
	var exact, sameBlock, dead *myReq
	for _, r := range p.MyReqs {
		if r.Req.Index != m.Index || r.Req.Begin != m.Begin || r.Answered != 0 || r.Rejected {
			continue
		}
		if sameBlock == nil {
			sameBlock = r
		}
		if uint32(len(m.Data)) != r.Req.Length {
			continue
		}
		if voided(r) || cancelledForSure(r) {
			if dead == nil {
				dead = r
			}
			continue
		}
		exact = r
		break
	}
	simrt.Probe("upload-received")
	if !p.SysUnchokedUs {
		p.Viol("C16", "piece-while-choked", "", "%s: piece message (%d, %d) arrived while the system is choking us", p.Cfg.Name, m.Index, m.Begin)
	}
	switch {
	case exact != nil:
		exact.Answered++
	case dead != nil:
		dead.Answered++
		if voided(dead) {
			p.Viol("C16", "piece-for-choked-away-request", "", "%s: piece (%d, %d) answers only a request that had reached the system before it choked us", p.Cfg.Name, m.Index, m.Begin)
		} else {
			p.Viol("C16", "piece-after-cancel", "", "%s: piece (%d, %d) answers only a request cancelled before the last quiescent point", p.Cfg.Name, m.Index, m.Begin)
		}
	case sameBlock != nil:
		sameBlock.Answered++
		p.Viol("C16", "upload-length", "", "%s: requested %d bytes at (%d, %d), got %d", p.Cfg.Name, sameBlock.Req.Length, m.Index, m.Begin, len(m.Data))
	default:
		tot, ans, rej := 0, 0, 0
		for _, r := range p.MyReqs {
			if r.Req.Index == m.Index && r.Req.Begin == m.Begin {
				tot++
				if r.Answered > 0 {
					ans++
				}
				if r.Rejected {
					rej++
				}
			}
		}
		p.Viol("C16", "unsolicited-piece", "", "%s: piece message (%d, %d, %d bytes) answers no pending request of this connection (%d requests were made for this block: %d answered, %d rejected)", p.Cfg.Name, m.Index, m.Begin, len(m.Data), tot, ans, rej)
	}
}

// ---- C11: conformance of everything the system sends --------------------------------

// conform judges one message from the system.  Rules that depend on state
// we established (choke, retraction, answers) use the epoch rule: the
// system is held to that state only once a quiescent point has followed our
// sending it, so a message that crossed ours in flight is never flagged.
func (p *RefPeer) conform(m refwire.Message) {
	g := p.Spec.Geo
	np := g.NPieces
	fast := p.Cfg.Fast && p.SysHS.Fast()
	ep := p.W.Epoch
	switch m := m.(type) {
	case refwire.Request:
		i := int(m.Index)
		if i >= np {
			p.Viol("C11", "request-range", "piece", "%s: request for piece %d of %d", p.Cfg.Name, i, np)
			return
		}
		pl := g.PieceLen(i)
		if m.Begin%chunkSize != 0 || int64(m.Begin) >= pl {
			p.Viol("C11", "request-range", "offset", "%s: request (%d, %d, %d): offset not a 16 KiB multiple inside the piece (%d bytes)", p.Cfg.Name, i, m.Begin, m.Length, pl)
			return
		}
		want := int64(chunkSize)
		if rem := pl - int64(m.Begin); rem < want {
			want = rem // only the torrent's final block is shorter
		}
		if int64(m.Length) != want {
			p.Viol("C11", "request-length", "", "%s: request (%d, %d) has length %d, the block is %d bytes", p.Cfg.Name, i, m.Begin, m.Length, want)
			return
		}
		if !p.Have[i] {
			if !p.everAdvertised[i] {
				p.Viol("C11", "request-not-advertised", "never", "%s: request for piece %d, which this peer never advertised", p.Cfg.Name, i)
				return
			} else if e, ok := p.DontEpoch[i]; ok && ep > e {
				p.Viol("C11", "request-not-advertised", "retracted", "%s: request for piece %d, retracted before the last quiescent point", p.Cfg.Name, i)
				return
			}
		}
		if p.ChokingSys && !(fast && p.FastSent[i]) {
			if !p.everUnchoked {
				p.Viol("C11", "request-while-choked", "never-unchoked", "%s: request (%d, %d) although this peer never unchoked the system nor allowed-fast the piece", p.Cfg.Name, i, m.Begin)
				return
			} else if ep > p.ChokeEpoch {
				p.Viol("C11", "request-while-choked", "after-choke", "%s: request (%d, %d) written after a quiescent point that followed our choke", p.Cfg.Name, i, m.Begin)
				return
			}
		}
		// (without the fast extension a choke voids the requests the system
		// had sent when it *handled* the choke: an earlier request that
		// arrived after the last quiescent point before which we did not
		// choke may have been voided that way, and asking again is right)
		if r := p.Outstanding[blk{i, m.Begin}]; r != nil && !r.Cancelled && !p.sentMisaddressed && (fast || p.lastChokeEpoch < r.Epoch) && !p.settledFor(blk{i, m.Begin}, r) { // (a request the system has cancelled is no longer outstanding for it, answered or not: asking again is not a duplicate)
			hist := ""
			for _, r := range p.ReqLog {
				if r.Req.Index == m.Index && r.Req.Begin == m.Begin {
					hist += fmt.Sprintf(" [received epoch %d, answered=%v with %s at epoch %d, cancelled=%v]", r.Epoch, r.Answered, ansNames[r.Kind], r.AnswerEpoch, r.Cancelled)
				}
			}
			recent := ""
			for _, rm := range p.Recv[max(0, len(p.Recv)-10):] {
				recent += fmt.Sprintf(" {e%d %v %s}", rm.Epoch, rm.At, briefMsg(rm.Msg))
			}
			p.Viol("C11", "request-duplicate", "", "%s: request (%d, %d) is already outstanding on this connection; requests for this block:%s; last messages received:%s; choking=%v allowed-fast=%v", p.Cfg.Name, i, m.Begin, hist, recent, p.ChokingSys, p.FastSent[i])
			return
		}
		limit := 250 // BEP 10 default when no reqq was advertised
		if p.SentReqq >= 0 {
			limit = p.SentReqq
		}
		limit = max(limit, 2)
		// (same caveat as for duplicates: without the fast extension only
		// requests that arrived after a quiescent point that followed our
		// last choke are known not to have been voided by it)
		nout := 1
		for k, r := range p.Outstanding {
			if (fast || p.lastChokeEpoch < r.Epoch) && !r.Cancelled && !p.settledFor(k, r) {
				nout++
			}
		}
		if nout > limit {
			class := ""
			if p.SentReqq == 0 {
				class = "reqq-zero"
			}
			own := ""
			for _, t := range p.W.Torrents {
				for _, sp := range t.SimPeers() {
					if string(sp.Id) == string(p.ID) {
						q, o := sp.SimRequests()
						own = fmt.Sprintf("; the system's own record for this peer: queued %v outstanding %v, reqq %d", q, o, sp.SimReqQ())
					}
				}
			}
			var outs []string
			for k, r := range p.Outstanding {
				outs = append(outs, fmt.Sprintf("(%d,%d)@e%d cancelled=%v", k.Piece, k.Begin, r.Epoch, r.Cancelled))
			}
			sort.Strings(outs)
			p.Viol("C11", "request-pipeline", class, "%s: %d requests outstanding, advertised queue depth %d: %v (last choke sent at epoch %d, fast=%v)%s", p.Cfg.Name, nout, p.SentReqq, outs, p.lastChokeEpoch, fast, own)
		}
	case refwire.Cancel:
		var last *sysReq
		for _, r := range p.ReqLog {
			if r.Req == (refwire.Request{Index: m.Index, Begin: m.Begin, Length: m.Length}) {
				last = r
			}
		}
		if last == nil {
			p.Viol("C11", "cancel-unknown", "", "%s: cancel (%d, %d, %d) names no request received on this connection", p.Cfg.Name, m.Index, m.Begin, m.Length)
		} else if last.Answered && (last.Kind == AnsRight || last.Kind == AnsReject || last.Kind == AnsDuplicate) && ep > last.AnswerEpoch {
			hist := ""
			for _, r := range p.ReqLog {
				if r.Req.Index == m.Index && r.Req.Begin == m.Begin {
					hist += fmt.Sprintf(" [received epoch %d, answered=%v with %s at epoch %d, cancelled=%v]", r.Epoch, r.Answered, ansNames[r.Kind], r.AnswerEpoch, r.Cancelled)
				}
			}
			recent := ""
			for _, rm := range p.Recv[max(0, len(p.Recv)-14):] {
				recent += fmt.Sprintf(" {e%d %v %s}", rm.Epoch, rm.At, briefMsg(rm.Msg))
			}
			p.Viol("C11", "cancel-answered", "", "%s: cancel (%d, %d) at epoch %d for a request answered before the last quiescent point; requests for this block on this connection:%s; last messages received:%s", p.Cfg.Name, m.Index, m.Begin, ep, hist, recent)
		}
	case refwire.Bitfield:
		if len(m.Bits) != (np+7)/8 {
			p.Viol("C11", "bitfield-length", fmt.Sprintf("pieces-mod-8=%d", np%8), "%s: bitfield of %d bytes for %d pieces, want %d", p.Cfg.Name, len(m.Bits), np, (np+7)/8)
			return
		}
		for i := np; i < len(m.Bits)*8; i++ {
			if m.Bits[i/8]&(0x80>>uint(i%8)) != 0 {
				p.Viol("C11", "bitfield-spare-bits", "", "%s: spare bit %d set in the bitfield", p.Cfg.Name, i)
				return
			}
		}
		for i := 0; i < np; i++ {
			if m.Bits[i/8]&(0x80>>uint(i%8)) != 0 && !p.W.MayHold(p.Spec, i) {
				p.Viol("C11", "bitfield-content", "", "%s: bitfield claims piece %d, which the system cannot hold", p.Cfg.Name, i)
				return
			}
		}
	case refwire.Have:
		if int(m.Index) >= np {
			p.Viol("C11", "have-range", "", "%s: have %d of %d pieces", p.Cfg.Name, m.Index, np)
		} else if !p.W.MayHold(p.Spec, int(m.Index)) {
			p.Viol("C11", "have-content", "", "%s: have %d, which the system cannot hold", p.Cfg.Name, m.Index)
		}
	case refwire.HaveAll:
		if !fast {
			p.Viol("C11", "fast-message-without-fast", "have-all", "%s: have-all without the fast extension", p.Cfg.Name)
		}
		for i := 0; i < np; i++ {
			if !p.W.MayHold(p.Spec, i) {
				p.Viol("C11", "have-all-content", "", "%s: have-all, but the system cannot hold piece %d", p.Cfg.Name, i)
				break
			}
		}
	case refwire.HaveNone, refwire.AllowedFast, refwire.SuggestPiece:
		if !fast {
			p.Viol("C11", "fast-message-without-fast", "", "%s: %T without the fast extension", p.Cfg.Name, m)
		}
	case refwire.Extended:
		if !(p.Cfg.Ext && p.SysHS.Extended()) {
			p.Viol("C11", "extended-without-extension", "", "%s: extended message without the extension protocol", p.Cfg.Name)
			return
		}
		switch m.SubID {
		case 7: // lt_donthave, the id we announced
			if p.Cfg.NoDontHave {
				p.Viol("C11", "extension-not-offered", "lt_donthave", "%s: lt_donthave although we did not offer it", p.Cfg.Name)
			} else if idx, err := refwire.DecodeDontHave(m.Payload); err != nil || int(idx) >= np {
				p.Viol("C11", "donthave-range", "", "%s: dont-have %d of %d pieces (%v)", p.Cfg.Name, idx, np, err)
			}
		case 1: // ut_pex
			if p.Cfg.NoPex {
				p.Viol("C11", "extension-not-offered", "ut_pex", "%s: ut_pex although we did not offer it", p.Cfg.Name)
				return
			}
			added, dropped, err := refwire.DecodePex(m.Payload, true)
			if err != nil {
				p.Viol("C11", "pex-format", "", "%s: PEX message not strictly decodable: %v", p.Cfg.Name, err)
				return
			}
			p.PexMsgs++
			for _, a := range added {
				k := fmt.Sprintf("%v:%d", a.IP, a.Port)
				if p.PexAnnounced[k] {
					p.Viol("C11", "pex-added-twice", "", "%s: PEX announces %s, which is already announced", p.Cfg.Name, k)
				}
				p.PexAnnounced[k] = true
			}
			for _, d := range dropped {
				k := fmt.Sprintf("%v:%d", d.IP, d.Port)
				if !p.PexAnnounced[k] {
					p.Viol("C11", "pex-dropped-unknown", "", "%s: PEX drops %s, which was not announced", p.Cfg.Name, k)
				}
				delete(p.PexAnnounced, k)
			}
		}
	}
}
