package harness

import (
	"crypto/sha1"
	"encoding/binary"
	"fmt"
	"sort"

	"github.com/jech/storrent/zzsim/refwire"
	"github.com/jech/storrent/zzsim/simrt"
)

// Generated torrents: ground-truth content, geometry, file table and
// metainfo, encoded with the reference bencoder.

type FileSpec struct {
	Path   []string
	Length int64
	Offset int64
	Pad    bool
}

type TorSpec struct {
	Geo       Geometry
	Key       uint64
	Content   []byte
	Hashes    [][]byte
	Name      string
	Files     []FileSpec // nil: single file
	Info      []byte
	InfoHash  []byte
	Trackers  [][]string
	URLList   []string
	HTTPSeeds []string
	Torrent   []byte

	// Sparse torrents are larger than 4 GiB and are never materialised:
	// only the pieces in live have their true SHA-1 in the metainfo (the
	// others can never be verified, so nobody can ever hold them), and
	// content is computed on demand.
	pad    []byte // value of an extra info key, see SpecOpts.BigInfo
	Sparse bool
	live   map[int]bool
	cache  map[int][]byte
}

type SpecOpts struct {
	MaxPieces int
	Big       bool
	MultiFile int // 0: drawn; 1: never; 2: always
	Name      string
	Trackers  [][]string
	URLList   []string
	HTTPSeeds []string
	FileNames func(i int) []string
	// PieceCounts, if set, is the list the piece count is drawn from
	PieceCounts []int
	// PieceSize, if set, replaces the drawn piece length (with PieceCounts)
	PieceSize int64
	// Huge allows (one run in HugeOdds, default 12) a sparse torrent that
	// crosses the 4 GiB mark
	Huge     bool
	HugeOdds int
	// BigInfo allows an info dictionary of several 16 KiB metadata blocks
	// (an extra key the client ignores), sometimes an exact multiple
	BigInfo bool
}

// Live reports whether piece i can be verified (always, unless sparse).
func (s *TorSpec) Live(i int) bool { return !s.Sparse || s.live[i] }

// LivePieces lists the verifiable pieces in increasing order.
func (s *TorSpec) LivePieces() []int {
	var out []int
	if !s.Sparse {
		for i := 0; i < s.Geo.NPieces; i++ {
			out = append(out, i)
		}
		return out
	}
	for i := range s.live {
		out = append(out, i)
	}
	sort.Ints(out)
	return out
}

// DrawOffset draws a byte offset in the torrent; in a sparse torrent mostly
// one inside a piece that can be verified.
func (s *TorSpec) DrawOffset(st *simrt.Stream) int64 {
	if s.Sparse && st.Bool(7, 8) {
		lp := s.LivePieces()
		i := lp[st.Choice(len(lp))]
		return int64(i)*s.Geo.PieceSize + int64(st.Choice(int(s.Geo.PieceLen(i))))
	}
	return int64(st.Choice(int(s.Geo.Length)))
}

// DrawPiece draws a piece index, in a sparse torrent mostly a verifiable one.
func (s *TorSpec) DrawPiece(st *simrt.Stream) int {
	if s.Sparse && st.Bool(7, 8) {
		lp := s.LivePieces()
		return lp[st.Choice(len(lp))]
	}
	return st.Choice(s.Geo.NPieces)
}

// Bytes returns the true torrent bytes [off, off+n).
func (s *TorSpec) Bytes(off, n int64) []byte {
	if !s.Sparse {
		return s.Content[off : off+n]
	}
	p := make([]byte, n)
	for o := off &^ 7; o < off+n; o += 8 {
		w := simrt.Mix(s.Key, uint64(o>>3))
		for j := int64(0); j < 8; j++ {
			if o+j < off || o+j >= off+n {
				continue
			}
			b := byte(w >> (8 * uint(j)))
			switch b {
			case 0x00:
				b = 0x01
			case 0xDB:
				b = 0xDC
			}
			p[o+j-off] = b
		}
	}
	for _, f := range s.Files {
		if f.Pad {
			for i := max(off, f.Offset); i < min(off+n, f.Offset+f.Length); i++ {
				p[i-off] = 0
			}
		}
	}
	return p
}

func genSparse(st *simrt.Stream, o SpecOpts) *TorSpec {
	s := &TorSpec{Trackers: o.Trackers, URLList: o.URLList, HTTPSeeds: o.HTTPSeeds, Sparse: true, live: map[int]bool{}, cache: map[int][]byte{}}
	ps := simrt.Pick(st, int64(256<<10), 384<<10, 1<<20, 208<<10, 2<<20) // (storrent's periodic work is linear in the number of pieces: keep it in the tens of thousands)
	first := int((int64(1)<<32 + ps - 1) / ps)                           // first piece that starts at or beyond 4 GiB
	n := first + 1 + st.Choice(3)
	length := int64(n) * ps
	switch st.Weighted(3, 3, 2, 2) {
	case 1:
		length -= chunkSize * int64(1+st.Choice(int(ps/chunkSize)-1))
	case 2:
		length -= int64(1 + st.Choice(chunkSize-1))
	case 3:
		length -= int64(1 + st.Choice(int(ps)-1))
	}
	s.Geo = Geometry{PieceSize: ps, Length: length, NPieces: int((length + ps - 1) / ps)}
	head := 1 + st.Choice(3)
	for i := 0; i < head; i++ {
		s.live[i] = true
	}
	for i := first - 1; i < s.Geo.NPieces; i++ {
		s.live[i] = true
	}
	s.Key = uint64(7000 + st.Choice(1<<20)*8)
	s.Name = o.Name
	if s.Name == "" {
		s.Name = fmt.Sprintf("torrent-%d", st.Choice(1000))
	}
	if o.MultiFile == 2 || (o.MultiFile == 0 && st.Bool(1, 2)) {
		// small files over the head pieces, one file across the gap that ends
		// somewhere in the tail pieces, small files over the rest
		headLen := int64(head) * ps
		tailStart := int64(first-1) * ps
		gapEnd := tailStart + int64(st.Choice(int(length-tailStart)))
		s.Files = genFiles(st, headLen, o.FileNames)
		k := len(s.Files)
		s.Files = append(s.Files, FileSpec{Path: []string{"huge.dat"}, Length: gapEnd - headLen})
		for _, f := range genFiles(st, length-gapEnd, o.FileNames) {
			if !f.Pad {
				f.Path = append([]string{"tail"}, f.Path...)
			} else {
				f.Path = []string{".pad", fmt.Sprintf("t%d-%d", len(s.Files), f.Length)}
			}
			s.Files = append(s.Files, f)
		}
		_ = k
		off := int64(0)
		for i := range s.Files {
			s.Files[i].Offset = off
			off += s.Files[i].Length
		}
	}
	s.Hashes = make([][]byte, s.Geo.NPieces)
	for i := range s.Hashes {
		if s.live[i] {
			h := sha1.Sum(s.Piece(i))
			s.Hashes[i] = h[:]
		} else {
			var h [20]byte
			binary.BigEndian.PutUint64(h[:], simrt.Mix(s.Key^0x5a5a, uint64(i)))
			binary.BigEndian.PutUint64(h[8:], simrt.Mix(s.Key^0xa5a5, uint64(i)))
			s.Hashes[i] = h[:]
		}
	}
	s.encode()
	simrt.Probe("torrent-beyond-4GiB")
	return s
}

func GenTorSpec(st *simrt.Stream, o SpecOpts) *TorSpec {
	if o.MaxPieces == 0 {
		o.MaxPieces = 8
	}
	if o.HugeOdds == 0 {
		o.HugeOdds = 12
	}
	if o.Huge && st.Bool(1, o.HugeOdds) {
		return genSparse(st, o)
	}
	s := &TorSpec{Trackers: o.Trackers, URLList: o.URLList, HTTPSeeds: o.HTTPSeeds}
	s.Geo = DrawGeometry(st, o.MaxPieces, o.Big)
	if len(o.PieceCounts) > 0 {
		n := o.PieceCounts[st.Choice(len(o.PieceCounts))]
		g := s.Geo
		last := g.PieceLen(g.NPieces - 1)
		if o.PieceSize > 0 {
			last = min(last, o.PieceSize)
			g.PieceSize = o.PieceSize
		}
		g.NPieces = n
		g.Length = int64(n-1)*g.PieceSize + last
		s.Geo = g
	}
	s.Key = uint64(7000 + st.Choice(1<<20)*8)
	s.Content = MakeContent(s.Key, s.Geo.Length)
	s.Hashes = PieceHashes(s.Content, s.Geo)
	s.Name = o.Name
	if s.Name == "" {
		s.Name = fmt.Sprintf("torrent-%d", st.Choice(1000))
	}
	multi := o.MultiFile == 2 || (o.MultiFile == 0 && st.Bool(1, 2))
	if multi {
		s.Files = genFiles(st, s.Geo.Length, o.FileNames)
		// padding files hold zeros (BEP 47): clients synthesise them
		for _, f := range s.Files {
			if f.Pad {
				for i := f.Offset; i < f.Offset+f.Length; i++ {
					s.Content[i] = 0
				}
			}
		}
		s.Hashes = PieceHashes(s.Content, s.Geo)
	}
	s.encode()
	if o.BigInfo && st.Bool(1, 3) {
		target := 16384 * (1 + st.Choice(3))
		if st.Bool(1, 2) {
			target += 1 + st.Choice(16383)
		}
		// "5:zzpad" + "<n>:" + n bytes are added; settle n so that the total is target
		for n := target - len(s.Info); n > 0; n-- {
			s.pad = make([]byte, n)
			for i := range s.pad {
				s.pad[i] = byte('a' + i%26)
			}
			s.encode()
			if len(s.Info) <= target {
				break
			}
		}
		simrt.Probe(fmt.Sprintf("metadata-blocks-%d-exact-%v", (len(s.Info)+16383)/16384, len(s.Info)%16384 == 0))
	}
	return s
}

func genFiles(st *simrt.Stream, total int64, names func(int) []string) []FileSpec {
	var fs []FileSpec
	remain := total
	n := 1 + st.Choice(6)
	for i := 0; remain > 0; i++ {
		var l int64
		switch {
		case i >= n-1:
			l = remain
		default:
			switch st.Weighted(4, 2, 2, 1) {
			case 0:
				l = 1 + int64(st.Choice(int(min(remain, 200000))))
			case 1:
				l = 1 + int64(st.Choice(int(min(remain, 5000)))) // shorter than a block
			case 2:
				l = 16384 * int64(1+st.Choice(4))
			default:
				l = 0 // empty file
			}
		}
		if l > remain {
			l = remain
		}
		pad := l > 0 && l < remain && st.Bool(1, 5)
		path := []string{fmt.Sprintf("file%d.dat", i)}
		if names != nil {
			path = names(i)
		} else if st.Bool(1, 3) {
			path = []string{fmt.Sprintf("dir%d", st.Choice(2)), fmt.Sprintf("file%d.dat", i)}
		}
		if pad {
			path = []string{".pad", fmt.Sprintf("%d-%d", i, l)} // unique
		}
		fs = append(fs, FileSpec{Path: path, Length: l, Pad: pad})
		remain -= l
	}
	off := int64(0)
	for i := range fs {
		fs[i].Offset = off
		off += fs[i].Length
	}
	return fs
}

func (s *TorSpec) encode() {
	info := map[string]any{
		"name":         s.Name,
		"piece length": s.Geo.PieceSize,
	}
	var pieces []byte
	for _, h := range s.Hashes {
		pieces = append(pieces, h...)
	}
	info["pieces"] = pieces
	if s.pad != nil {
		info["zzpad"] = s.pad
	}
	if s.Files == nil {
		info["length"] = s.Geo.Length
	} else {
		var fl []any
		for _, f := range s.Files {
			var p []any
			for _, c := range f.Path {
				p = append(p, c)
			}
			d := map[string]any{"length": f.Length, "path": p}
			if f.Pad {
				d["attr"] = "p"
			}
			fl = append(fl, d)
		}
		info["files"] = fl
	}
	s.Info = refwire.BEncode(info)
	h := sha1.Sum(s.Info)
	s.InfoHash = h[:]
	s.Torrent = s.encodeTorrent(s.Info)
}

func (s *TorSpec) encodeTorrent(info []byte) []byte {
	// the info dictionary is spliced in verbatim
	out := []byte("d")
	add := func(k string, v []byte) {
		out = append(out, refwire.BEncode(k)...)
		out = append(out, v...)
	}
	if len(s.Trackers) > 0 && len(s.Trackers[0]) > 0 {
		add("announce", refwire.BEncode(s.Trackers[0][0]))
	}
	if len(s.Trackers) > 1 || (len(s.Trackers) == 1 && len(s.Trackers[0]) > 1) {
		var tiers []any
		for _, t := range s.Trackers {
			var tier []any
			for _, u := range t {
				tier = append(tier, u)
			}
			tiers = append(tiers, tier)
		}
		add("announce-list", refwire.BEncode(tiers))
	}
	if len(s.HTTPSeeds) > 0 {
		var l []any
		for _, u := range s.HTTPSeeds {
			l = append(l, u)
		}
		add("httpseeds", refwire.BEncode(l))
	}
	add("info", info)
	if len(s.URLList) > 0 {
		var l []any
		for _, u := range s.URLList {
			l = append(l, u)
		}
		add("url-list", refwire.BEncode(l))
	}
	return append(out, 'e')
}

// Piece returns the true bytes of a piece.
func (s *TorSpec) Piece(i int) []byte {
	lo := int64(i) * s.Geo.PieceSize
	if s.Sparse {
		if c, ok := s.cache[i]; ok {
			return c
		}
		c := s.Bytes(lo, s.Geo.PieceLen(i))
		if len(s.cache) < 64 {
			s.cache[i] = c
		}
		return c
	}
	return s.Content[lo : lo+s.Geo.PieceLen(i)]
}

// Block returns the true bytes of (piece, begin, length), clipped to the piece.
func (s *TorSpec) Block(i int, begin, length int64) []byte {
	p := s.Piece(i)
	if begin >= int64(len(p)) {
		return nil
	}
	end := begin + length
	if end > int64(len(p)) {
		end = int64(len(p))
	}
	return p[begin:end]
}

// NChunks is the number of 16 KiB blocks of the torrent; chunk indexes are
// storrent's: piece * (pieceSize/16K) + block.
func (s *TorSpec) ChunksPerPiece() int { return int(s.Geo.PieceSize / chunkSize) }

func (s *TorSpec) MagnetURI() string {
	return fmt.Sprintf("magnet:?xt=urn:btih:%x", s.InfoHash)
}
