package alloc

import "github.com/jech/storrent/zzsim/simrt"

// SimAlloc replaces alloc.Alloc at call sites outside this package: it can
// inject an allocation failure.
func SimAlloc(size int) ([]byte, error) {
	if f := simrt.AllocFail; f != nil && simrt.Active() && f(size) {
		if size >= 128*1024 {
			// a buffer of this size comes from mmap: let the system call
			// fail, inside Alloc, rather than the wrapper around it
			simrt.FailNextMmap()
			p, err := Alloc(size)
			if !simrt.MmapFailPending() {
				return p, err
			}
			// Alloc did not reach mmap: fail here as for small buffers
			if err == nil {
				Free(p)
			}
		}
		simrt.Fault("alloc-fail")
		return nil, simrt.ErrSimAlloc
	}
	return Alloc(size)
}

// SimFree replaces alloc.Free at call sites outside this package: heap
// buffers are poisoned before release so that a stale read is visible.
func SimFree(p []byte) error {
	simrt.Poison(p)
	return Free(p)
}

// SimReset clears the accounting between runs (buffers of a previous run
// that were never released are forgotten).
func SimReset() { allocated = 0 }
