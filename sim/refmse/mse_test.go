package refmse

import (
	"bytes"
	"crypto/rc4"
	"crypto/sha1"
	"encoding/binary"
	"errors"
	"fmt"
	"io"
	"math/big"
	"net"
	"sync"
	"testing"
)

// detRand is a deterministic byte source (SHA-1 in counter mode).
type detRand struct {
	seed string
	ctr  uint64
	buf  []byte
}

func newRand(seed string) *detRand { return &detRand{seed: seed} }

func (d *detRand) Read(p []byte) (int, error) {
	for i := range p {
		if len(d.buf) == 0 {
			h := sha1.Sum([]byte(fmt.Sprintf("%s/%d", d.seed, d.ctr)))
			d.ctr++
			d.buf = h[:]
		}
		p[i] = d.buf[0]
		d.buf = d.buf[1:]
	}
	return len(p), nil
}

var (
	skey1 = bytes.Repeat([]byte{0xAB}, 20)
	skey2 = bytes.Repeat([]byte{0xCD}, 20)
	skey3 = []byte("0123456789abcdefghij")
)

// ---------------------------------------------------------------------------
// Building blocks.

func TestPrime(t *testing.T) {
	p := Prime()
	if p.BitLen() != 768 {
		t.Fatalf("P has %d bits", p.BitLen())
	}
	if !p.ProbablyPrime(32) {
		t.Fatal("P is not prime")
	}
	// P is a safe prime: (P-1)/2 is prime too.  This doubles as a check
	// against typos in the constant.
	q := new(big.Int).Rsh(p, 1)
	if !q.ProbablyPrime(32) {
		t.Fatal("(P-1)/2 is not prime")
	}
	// Returned copies are independent.
	p.SetInt64(0)
	if Prime().Sign() == 0 {
		t.Fatal("Prime() returns shared state")
	}
}

func TestDH(t *testing.T) {
	// G^1 = 2, left-padded to 96 bytes.
	one := DHPublic(big.NewInt(1))
	if len(one) != KeyLen || one[95] != 2 || !bytes.Equal(one[:95], make([]byte, 95)) {
		t.Fatalf("DHPublic(1) = %x", one)
	}
	// G^768 = 2^768 mod P = 2^768 - P (since 2^767 < P < 2^768).
	want := new(big.Int).Sub(new(big.Int).Lsh(big.NewInt(1), 768), Prime())
	if got := new(big.Int).SetBytes(DHPublic(big.NewInt(768))); got.Cmp(want) != 0 {
		t.Fatalf("DHPublic(768) = %x", got)
	}
	r := newRand("dh")
	for i := 0; i < 20; i++ {
		a, _ := genPriv(r, 160)
		b, _ := genPriv(r, 160)
		if a.BitLen() > 160 || b.BitLen() > 160 {
			t.Fatal("private key too long")
		}
		ya, yb := DHPublic(a), DHPublic(b)
		sa, sb := DHSecret(a, yb), DHSecret(b, ya)
		if len(ya) != KeyLen || len(sa) != KeyLen || !bytes.Equal(sa, sb) {
			t.Fatalf("DH mismatch: %x / %x", sa, sb)
		}
	}
	// Small secrets are left-padded: peer key 1 gives S = 1.
	s := DHSecret(big.NewInt(12345), []byte{1})
	if len(s) != KeyLen || s[95] != 1 || !bytes.Equal(s[:95], make([]byte, 95)) {
		t.Fatalf("S = %x", s)
	}
	// Odd bit counts are masked.
	for _, bits := range []int{1, 7, 9, 127, 161} {
		for i := 0; i < 50; i++ {
			x, err := genPriv(r, bits)
			if err != nil || x.BitLen() > bits {
				t.Fatalf("genPriv(%d) = %x, %v", bits, x, err)
			}
		}
	}
}

func TestHashes(t *testing.T) {
	S := bytes.Repeat([]byte{7}, KeyLen)
	sum := func(parts ...string) []byte {
		h := sha1.New()
		for _, p := range parts {
			io.WriteString(h, p)
		}
		return h.Sum(nil)
	}
	if !bytes.Equal(Req1(S), sum("req1", string(S))) {
		t.Error("Req1")
	}
	x := Req2XorReq3(skey1, S)
	a, b := sum("req2", string(skey1)), sum("req3", string(S))
	for i := range x {
		if x[i] != a[i]^b[i] {
			t.Fatal("Req2XorReq3")
		}
	}
	ka, kb := DeriveKeys(S, skey1)
	if !bytes.Equal(ka, sum("keyA", string(S), string(skey1))) || !bytes.Equal(kb, sum("keyB", string(S), string(skey1))) {
		t.Error("DeriveKeys")
	}
	if len(ka) != 20 || len(kb) != 20 || bytes.Equal(ka, kb) {
		t.Error("key lengths")
	}
}

func TestRC4Drop(t *testing.T) {
	// RFC 6229 test vector, key 0x0102030405 (40 bits): keystream at
	// offset 1024 is "30 ab bc c7 c2 0b 01 60 9f 23 ee 2d 5f 6b b7 df".
	// Offset 0 of the same vector, to validate the vector itself against
	// the standard library: "b2 39 63 05 f0 3d c0 27".
	raw, _ := rc4.NewCipher([]byte{1, 2, 3, 4, 5})
	first := make([]byte, 8)
	raw.XORKeyStream(first, first)
	if !bytes.Equal(first, []byte{0xb2, 0x39, 0x63, 0x05, 0xf0, 0x3d, 0xc0, 0x27}) {
		t.Errorf("keystream at 0 = %x", first)
	}
	c := NewRC4Drop1024([]byte{1, 2, 3, 4, 5})
	got := make([]byte, 16)
	c.XORKeyStream(got, got)
	want := []byte{0x30, 0xab, 0xbc, 0xc7, 0xc2, 0x0b, 0x01, 0x60, 0x9f, 0x23, 0xee, 0x2d, 0x5f, 0x6b, 0xb7, 0xdf}
	if !bytes.Equal(got, want) {
		t.Errorf("keystream at 1024 = %x, want %x", got, want)
	}
}

func TestGenPadUniformRange(t *testing.T) {
	r := newRand("pad")
	seen := map[int]bool{}
	for i := 0; i < 20000; i++ {
		p, err := genPad(r, -1, 0xffff)
		if err != nil || len(p) > MaxPad {
			t.Fatalf("pad %d %v", len(p), err)
		}
		seen[len(p)] = true
	}
	if !seen[0] || !seen[MaxPad] {
		t.Errorf("extremes not drawn: 0:%v 512:%v", seen[0], seen[MaxPad])
	}
	if p, err := genPad(r, 700, 0xffff); err != nil || len(p) != 700 {
		t.Errorf("explicit oversize pad: %d %v", len(p), err)
	}
	if _, err := genPad(r, 70000, 0xffff); err == nil {
		t.Error("pad beyond limit accepted")
	}
}

// ---------------------------------------------------------------------------
// Transports for tests.

// tap records everything written through it.
type tap struct {
	io.ReadWriter
	mu      sync.Mutex
	written []byte
}

func (t *tap) Write(p []byte) (int, error) {
	t.mu.Lock()
	t.written = append(t.written, p...)
	t.mu.Unlock()
	return t.ReadWriter.Write(p)
}

// oneByte delivers at most one byte per Read.  Like a TCP receive buffer, it
// drains the underlying connection in large reads (so that a peer blocked in
// a synchronous net.Pipe Write is released), then hands the bytes out one at
// a time.
type oneByte struct {
	io.ReadWriter
	buf []byte
}

func (o *oneByte) Read(p []byte) (int, error) {
	if len(p) == 0 {
		return 0, nil
	}
	if len(o.buf) == 0 {
		b := make([]byte, 65536)
		n, err := o.ReadWriter.Read(b)
		if n == 0 {
			return 0, err
		}
		o.buf = b[:n]
	}
	p[0] = o.buf[0]
	o.buf = o.buf[1:]
	return 1, nil
}

// bufPipe is an asynchronous in-memory duplex pipe with unbounded buffering:
// writes never block, and a Read returns everything available (up to len(p)).
type bufHalf struct {
	mu     sync.Mutex
	cond   *sync.Cond
	buf    []byte
	closed bool
}

func newBufHalf() *bufHalf {
	h := &bufHalf{}
	h.cond = sync.NewCond(&h.mu)
	return h
}

func (h *bufHalf) Write(p []byte) (int, error) {
	h.mu.Lock()
	defer h.mu.Unlock()
	if h.closed {
		return 0, io.ErrClosedPipe
	}
	h.buf = append(h.buf, p...)
	h.cond.Broadcast()
	return len(p), nil
}

func (h *bufHalf) Read(p []byte) (int, error) {
	h.mu.Lock()
	defer h.mu.Unlock()
	for len(h.buf) == 0 {
		if h.closed {
			return 0, io.EOF
		}
		h.cond.Wait()
	}
	n := copy(p, h.buf)
	h.buf = h.buf[n:]
	return n, nil
}

func (h *bufHalf) Close() {
	h.mu.Lock()
	h.closed = true
	h.cond.Broadcast()
	h.mu.Unlock()
}

type bufEnd struct {
	r, w *bufHalf
}

func (e *bufEnd) Read(p []byte) (int, error)  { return e.r.Read(p) }
func (e *bufEnd) Write(p []byte) (int, error) { return e.w.Write(p) }
func (e *bufEnd) Close()                      { e.r.Close(); e.w.Close() }

func bufPipe() (*bufEnd, *bufEnd) {
	ab, ba := newBufHalf(), newBufHalf()
	return &bufEnd{r: ba, w: ab}, &bufEnd{r: ab, w: ba}
}

// ---------------------------------------------------------------------------
// Initiate <-> Respond.

type pairResult struct {
	a, b       *Result
	errA, errB error
	aOut, bOut []byte // bytes A wrote / B wrote, as seen on the wire
}

// runPair runs Initiate and Respond against each other over ca/cb and, when
// both succeed, exchanges payload in both directions.
func runPair(t *testing.T, ca, cb io.ReadWriter, oa, ob Options) pairResult {
	t.Helper()
	ta, tb := &tap{ReadWriter: ca}, &tap{ReadWriter: cb}
	var res pairResult
	var wg sync.WaitGroup
	payloadAB := bytes.Repeat([]byte("from A to B. "), 300)
	payloadBA := bytes.Repeat([]byte("from B to A! "), 500)
	wg.Add(2)
	go func() {
		defer wg.Done()
		res.a, res.errA = Initiate(ta, oa)
		if res.errA != nil {
			closeAny(ca)
			return
		}
		// A writes first, then reads.
		if _, err := res.a.RW.Write(payloadAB); err != nil {
			res.errA = err
			return
		}
		got := make([]byte, len(payloadBA))
		if _, err := io.ReadFull(res.a.RW, got); err != nil {
			res.errA = err
		} else if !bytes.Equal(got, payloadBA) {
			res.errA = errors.New("A received corrupted payload")
		}
	}()
	go func() {
		defer wg.Done()
		res.b, res.errB = Respond(tb, ob)
		if res.errB != nil {
			closeAny(cb)
			return
		}
		// B reads first, then writes.
		got := make([]byte, len(payloadAB))
		if _, err := io.ReadFull(res.b.RW, got); err != nil {
			res.errB = err
			return
		} else if !bytes.Equal(got, payloadAB) {
			res.errB = errors.New("B received corrupted payload")
			return
		}
		// Write in two pieces to exercise the continuing keystream.
		if _, err := res.b.RW.Write(payloadBA[:100]); err != nil {
			res.errB = err
			return
		}
		if _, err := res.b.RW.Write(payloadBA[100:]); err != nil {
			res.errB = err
		}
	}()
	wg.Wait()
	res.aOut, res.bOut = ta.written, tb.written
	return res
}

func closeAny(c any) {
	switch x := c.(type) {
	case io.Closer:
		x.Close()
	case interface{ Close() }:
		x.Close()
	case *oneByte:
		closeAny(x.ReadWriter)
	}
}

// checkWire verifies the byte layout of both directions against the spec,
// using only the building blocks.
func checkWire(t *testing.T, r pairResult, oa, ob Options, padA, padB, padC, padD int) {
	t.Helper()
	S := r.a.S
	skey := oa.SKeys[0]
	keyA, keyB := DeriveKeys(S, skey)

	// A -> B: Ya, PadA, req1, req2^req3, ENCRYPT(VC, provide, len(PadC), PadC, len(IA)), ENCRYPT(IA), payload.
	w := r.aOut
	off := KeyLen + padA
	if !bytes.Equal(w[off:off+20], Req1(S)) {
		t.Fatalf("req1 hash not at offset %d", off)
	}
	off += 20
	if !bytes.Equal(w[off:off+20], Req2XorReq3(skey, S)) {
		t.Fatalf("req2^req3 not at offset %d", off)
	}
	off += 20
	c := NewRC4Drop1024(keyA)
	plain := make([]byte, len(w)-off)
	c.XORKeyStream(plain, w[off:])
	want := make([]byte, 8)
	want = binary.BigEndian.AppendUint32(want, oa.Provide)
	want = binary.BigEndian.AppendUint16(want, uint16(padC))
	if !bytes.Equal(plain[:14], want) {
		t.Fatalf("step 3 header = %x, want %x", plain[:14], want)
	}
	p := 14 + padC
	if got := int(binary.BigEndian.Uint16(plain[p:])); got != len(oa.IA) {
		t.Fatalf("len(IA) = %d, want %d", got, len(oa.IA))
	}
	p += 2
	if !bytes.Equal(plain[p:p+len(oa.IA)], oa.IA) {
		t.Fatalf("IA not found after step 3 header")
	}
	p += len(oa.IA)
	payloadAB := bytes.Repeat([]byte("from A to B. "), 300)
	if r.a.Selected == CryptoRC4 {
		if !bytes.Equal(plain[p:], payloadAB) {
			t.Fatalf("A's RC4 payload does not continue the keyA stream")
		}
	} else {
		if !bytes.Equal(w[off+p:], payloadAB) {
			t.Fatalf("A's plaintext payload is not plain")
		}
	}

	// B -> A: Yb, PadB, ENCRYPT(VC, select, len(PadD), PadD), payload.
	w = r.bOut
	off = KeyLen + padB
	c = NewRC4Drop1024(keyB)
	plain = make([]byte, len(w)-off)
	c.XORKeyStream(plain, w[off:])
	want = make([]byte, 8)
	want = binary.BigEndian.AppendUint32(want, r.b.Selected)
	want = binary.BigEndian.AppendUint16(want, uint16(padD))
	if !bytes.Equal(plain[:14], want) {
		t.Fatalf("step 4 header = %x, want %x", plain[:14], want)
	}
	p = 14 + padD
	payloadBA := bytes.Repeat([]byte("from B to A! "), 500)
	if r.b.Selected == CryptoRC4 {
		if !bytes.Equal(plain[p:], payloadBA) {
			t.Fatalf("B's RC4 payload does not continue the keyB stream")
		}
	} else {
		if !bytes.Equal(w[off+p:], payloadBA) {
			t.Fatalf("B's plaintext payload is not plain")
		}
	}

	// DH public keys on the wire are those the peers report.
	if !bytes.Equal(r.aOut[:KeyLen], r.b.PeerPub) || !bytes.Equal(r.bOut[:KeyLen], r.a.PeerPub) {
		t.Fatalf("public keys")
	}
}

func checkResults(t *testing.T, r pairResult, oa, ob Options, wantSel uint32) {
	t.Helper()
	if r.errA != nil || r.errB != nil {
		t.Fatalf("errA=%v errB=%v", r.errA, r.errB)
	}
	a, b := r.a, r.b
	if !bytes.Equal(a.S, b.S) || len(a.S) != KeyLen {
		t.Fatalf("S differs")
	}
	if !bytes.Equal(a.KeyA, b.KeyA) || !bytes.Equal(a.KeyB, b.KeyB) {
		t.Fatalf("keys differ")
	}
	if !bytes.Equal(a.SKey, oa.SKeys[0]) || !bytes.Equal(b.SKey, oa.SKeys[0]) {
		t.Fatalf("SKey: %x / %x", a.SKey, b.SKey)
	}
	if a.Provide != oa.Provide || b.Provide != oa.Provide {
		t.Fatalf("Provide: %x / %x", a.Provide, b.Provide)
	}
	if a.Selected != wantSel || b.Selected != wantSel {
		t.Fatalf("Selected: %x / %x, want %x", a.Selected, b.Selected, wantSel)
	}
	if !bytes.Equal(b.IA, oa.IA) {
		t.Fatalf("IA: got %d bytes, want %d", len(b.IA), len(oa.IA))
	}
}

func fakeBTHandshake() []byte {
	ia := append([]byte{19}, "BitTorrent protocol"...)
	ia = append(ia, make([]byte, 8)...)
	ia = append(ia, skey1...)
	ia = append(ia, "-RF0001-abcdefghijkl"...)
	return ia
}

func TestHandshakeMatrix(t *testing.T) {
	type selCase struct {
		name    string
		provide uint32
		sel     func(uint32) uint32
		want    uint32
	}
	sels := []selCase{
		{"rc4-default", CryptoRC4 | CryptoPlaintext, nil, CryptoRC4},
		{"rc4-only", CryptoRC4, nil, CryptoRC4},
		{"plain-only", CryptoPlaintext, nil, CryptoPlaintext},
		{"plain-chosen", CryptoRC4 | CryptoPlaintext, func(uint32) uint32 { return CryptoPlaintext }, CryptoPlaintext},
	}
	ias := map[string][]byte{"noIA": nil, "IA": fakeBTHandshake()}
	for _, pad := range []int{0, 1, 511, 512} {
		for _, sc := range sels {
			for ianame, ia := range ias {
				name := fmt.Sprintf("pad%d/%s/%s", pad, sc.name, ianame)
				t.Run(name, func(t *testing.T) {
					ca, cb := net.Pipe()
					defer ca.Close()
					defer cb.Close()
					// PadC/PadD use the "mirrored" length to vary them too.
					oa := Options{Rand: newRand("A" + name), Provide: sc.provide, PadLen: pad,
						PadCLen: 512 - pad, IA: ia, SKeys: [][]byte{skey1}}
					ob := Options{Rand: newRand("B" + name), Select: sc.sel, PadLen: 512 - pad,
						PadCLen: pad, SKeys: [][]byte{skey2, skey1, skey3}}
					r := runPair(t, ca, cb, oa, ob)
					checkResults(t, r, oa, ob, sc.want)
					checkWire(t, r, oa, ob, pad, 512-pad, 512-pad, pad)
					if r.a.PeerPadLen != 512-pad || r.b.PeerPadLen != pad {
						t.Errorf("observed pads %d/%d", r.a.PeerPadLen, r.b.PeerPadLen)
					}
					if r.a.PeerPadCDLen != pad || r.b.PeerPadCDLen != 512-pad {
						t.Errorf("observed PadC/D %d/%d", r.b.PeerPadCDLen, r.a.PeerPadCDLen)
					}
				})
			}
		}
	}
}

func TestHandshakeSamePadBothSides(t *testing.T) {
	for _, pad := range []int{0, 1, 511, 512} {
		ca, cb := net.Pipe()
		oa := Options{Rand: newRand("A"), Provide: 3, PadLen: pad, PadCLen: pad, IA: fakeBTHandshake(), SKeys: [][]byte{skey1}}
		ob := Options{Rand: newRand("B"), PadLen: pad, PadCLen: pad, SKeys: [][]byte{skey1}}
		r := runPair(t, ca, cb, oa, ob)
		checkResults(t, r, oa, ob, CryptoRC4)
		checkWire(t, r, oa, ob, pad, pad, pad, pad)
		ca.Close()
		cb.Close()
	}
}

func TestHandshakeRandomPads(t *testing.T) {
	for i := 0; i < 30; i++ {
		ca, cb := bufPipe()
		oa := Options{Rand: newRand(fmt.Sprint("A", i)), Provide: 3, PadLen: -1, PadCLen: -1,
			IA: fakeBTHandshake()[:i], SKeys: [][]byte{skey3}}
		ob := Options{Rand: newRand(fmt.Sprint("B", i)), PadLen: -1, PadCLen: -1, SKeys: [][]byte{skey1, skey3}}
		r := runPair(t, ca, cb, oa, ob)
		checkResults(t, r, oa, ob, CryptoRC4)
		checkWire(t, r, oa, ob, r.b.PeerPadLen, r.a.PeerPadLen, r.b.PeerPadCDLen, r.a.PeerPadCDLen)
		for _, n := range []int{r.a.PeerPadLen, r.b.PeerPadLen, r.a.PeerPadCDLen, r.b.PeerPadCDLen} {
			if n < 0 || n > MaxPad {
				t.Fatalf("random pad %d out of range", n)
			}
		}
	}
}

func TestHandshakeReproducible(t *testing.T) {
	run := func() pairResult {
		ca, cb := bufPipe()
		oa := Options{Rand: newRand("A"), Provide: 3, PadLen: -1, PadCLen: -1, IA: []byte("hello"), SKeys: [][]byte{skey1}}
		ob := Options{Rand: newRand("B"), PadLen: -1, PadCLen: -1, SKeys: [][]byte{skey1}}
		r := runPair(t, ca, cb, oa, ob)
		checkResults(t, r, oa, ob, CryptoRC4)
		return r
	}
	r1, r2 := run(), run()
	if !bytes.Equal(r1.aOut, r2.aOut) || !bytes.Equal(r1.bOut, r2.bOut) {
		t.Error("same Rand, different wire bytes")
	}
}

func TestHandshakeOneByteReads(t *testing.T) {
	for _, pad := range []int{0, 1, 511, 512} {
		for _, provide := range []uint32{CryptoRC4, CryptoPlaintext} {
			for _, ia := range [][]byte{nil, fakeBTHandshake()} {
				// Over a synchronous net.Pipe ...
				ca, cb := net.Pipe()
				oa := Options{Rand: newRand("A"), Provide: provide, PadLen: pad, PadCLen: pad, IA: ia, SKeys: [][]byte{skey1}}
				ob := Options{Rand: newRand("B"), PadLen: pad, PadCLen: 512 - pad, SKeys: [][]byte{skey1}}
				r := runPair(t, &oneByte{ReadWriter: ca}, &oneByte{ReadWriter: cb}, oa, ob)
				checkResults(t, r, oa, ob, provide)
				checkWire(t, r, oa, ob, pad, pad, pad, 512-pad)
				ca.Close()
				cb.Close()

				// ... and over an asynchronous buffered pipe.
				pa, pb := bufPipe()
				oa.Rand, ob.Rand = newRand("A"), newRand("B")
				r = runPair(t, &oneByte{ReadWriter: pa}, &oneByte{ReadWriter: pb}, oa, ob)
				checkResults(t, r, oa, ob, provide)
				checkWire(t, r, oa, ob, pad, pad, pad, 512-pad)
			}
		}
	}
}

// gated passes the first n bytes through, then blocks until the gate is
// closed, so that everything the peer sent meanwhile arrives in one Read.
type gated struct {
	io.ReadWriter
	n    int
	gate <-chan struct{}
}

func (g *gated) Read(p []byte) (int, error) {
	if g.n > 0 {
		if len(p) > g.n {
			p = p[:g.n]
		}
		n, err := g.ReadWriter.Read(p)
		g.n -= n
		return n, err
	}
	<-g.gate
	return g.ReadWriter.Read(p)
}

// TestInitiatorReadAhead: B's step 4 and B's first payload bytes arrive at A
// in a single Read; the payload must come out of Result.RW.
func TestInitiatorReadAhead(t *testing.T) {
	for _, provide := range []uint32{CryptoRC4, CryptoPlaintext} {
		const padB = 37
		ca, cb := bufPipe()
		gate := make(chan struct{})
		oa := Options{Rand: newRand("A"), Provide: provide, PadLen: 5, PadCLen: 9, SKeys: [][]byte{skey1}}
		ob := Options{Rand: newRand("B"), PadLen: padB, PadCLen: 11, SKeys: [][]byte{skey1}}
		payload := []byte("payload glued to step 4")
		done := make(chan error, 1)
		go func() {
			defer close(gate)
			b, err := Respond(cb, ob)
			if err == nil {
				_, err = b.RW.Write(payload)
			}
			done <- err
		}()
		a, err := Initiate(&gated{ReadWriter: ca, n: KeyLen + padB, gate: gate}, oa)
		if err != nil {
			t.Fatal(err)
		}
		if err := <-done; err != nil {
			t.Fatal(err)
		}
		got := make([]byte, len(payload))
		if _, err := io.ReadFull(a.RW, got); err != nil || !bytes.Equal(got, payload) {
			t.Fatalf("provide %d: got %q, %v", provide, got, err)
		}
	}
}

// TestManualInitiator drives Respond with a hand-rolled initiator built from
// the building blocks only, which sends step 3 and its first payload bytes in
// one segment (legal when only one method is offered).
func TestManualInitiator(t *testing.T) {
	for _, method := range []uint32{CryptoRC4, CryptoPlaintext} {
		const padB, padD = 13, 29
		ca, cb := bufPipe()
		ob := Options{Rand: newRand("B"), PadLen: padB, PadCLen: padD, SKeys: [][]byte{skey2, skey1}}
		type out struct {
			r   *Result
			err error
		}
		done := make(chan out, 1)
		go func() {
			r, err := Respond(cb, ob)
			done <- out{r, err}
		}()

		priv := big.NewInt(0x1234567)
		padA := bytes.Repeat([]byte{0x55}, 100)
		ca.Write(DHPublic(priv))
		ca.Write(padA) // separate segment
		in := make([]byte, KeyLen+padB)
		if _, err := io.ReadFull(ca, in); err != nil {
			t.Fatal(err)
		}
		S := DHSecret(priv, in[:KeyLen])
		keyA, keyB := DeriveKeys(S, skey1)
		enc, dec := NewRC4Drop1024(keyA), NewRC4Drop1024(keyB)
		ia := []byte("initial payload")
		padC := bytes.Repeat([]byte{0x66}, 3)
		plain := make([]byte, 8)
		plain = binary.BigEndian.AppendUint32(plain, method)
		plain = binary.BigEndian.AppendUint16(plain, uint16(len(padC)))
		plain = append(plain, padC...)
		plain = binary.BigEndian.AppendUint16(plain, uint16(len(ia)))
		plain = append(plain, ia...)
		enc.XORKeyStream(plain, plain)
		msg := append(Req1(S), Req2XorReq3(skey1, S)...)
		msg = append(msg, plain...)
		payload := []byte("early payload")
		wire := append([]byte(nil), payload...)
		if method == CryptoRC4 {
			enc.XORKeyStream(wire, wire)
		}
		ca.Write(append(msg, wire...)) // one segment

		o := <-done
		if o.err != nil {
			t.Fatal(o.err)
		}
		if !bytes.Equal(o.r.IA, ia) || o.r.Provide != method || o.r.Selected != method ||
			!bytes.Equal(o.r.SKey, skey1) || o.r.PeerPadLen != len(padA) || o.r.PeerPadCDLen != len(padC) {
			t.Fatalf("result %+v", o.r)
		}
		got := make([]byte, len(payload))
		if _, err := io.ReadFull(o.r.RW, got); err != nil || !bytes.Equal(got, payload) {
			t.Fatalf("method %d: early payload: %q, %v", method, got, err)
		}
		// Step 4 as seen by the manual initiator.
		step4 := make([]byte, 8+4+2+padD)
		if _, err := io.ReadFull(ca, step4); err != nil {
			t.Fatal(err)
		}
		dec.XORKeyStream(step4, step4)
		want := make([]byte, 8)
		want = binary.BigEndian.AppendUint32(want, method)
		want = binary.BigEndian.AppendUint16(want, padD)
		if !bytes.Equal(step4[:14], want) {
			t.Fatalf("step 4 = %x", step4[:14])
		}
		// And payload from B.
		o.r.RW.Write([]byte("pong"))
		pong := make([]byte, 4)
		io.ReadFull(ca, pong)
		if method == CryptoRC4 {
			dec.XORKeyStream(pong, pong)
		}
		if string(pong) != "pong" {
			t.Fatalf("pong = %q", pong)
		}
	}
}

// ---------------------------------------------------------------------------
// Failure cases.

func TestBadSelect(t *testing.T) {
	cases := []struct {
		provide, sel uint32
	}{
		{CryptoRC4, CryptoPlaintext}, // not offered
		{CryptoPlaintext, CryptoRC4}, // not offered
		{3, 3},                       // two bits
		{3, 0},                       // nothing
		{3, 4},                       // unassigned, not offered
		{0, 1},                       // nothing was offered
		{0xffffffff, 0x80000000},     // offered but undefined
		{3, 0x00010002},              // two bits
	}
	for _, c := range cases {
		ca, cb := bufPipe()
		oa := Options{Rand: newRand("A"), Provide: c.provide, PadLen: 3, PadCLen: 4, SKeys: [][]byte{skey1}}
		sel := c.sel
		ob := Options{Rand: newRand("B"), Select: func(uint32) uint32 { return sel }, PadLen: 5, PadCLen: 6, SKeys: [][]byte{skey1}}
		r := runPair(t, ca, cb, oa, ob)
		if !errors.Is(r.errA, ErrBadSelect) {
			t.Errorf("provide %x select %x: errA = %v", c.provide, c.sel, r.errA)
		}
		if r.a == nil || r.a.Selected != c.sel || r.a.RW != nil {
			t.Errorf("provide %x select %x: partial result %+v", c.provide, c.sel, r.a)
		}
	}
}

func TestNoCommonCrypto(t *testing.T) {
	for _, provide := range []uint32{0, 4, 0xfffffffc} {
		ca, cb := bufPipe()
		oa := Options{Rand: newRand("A"), Provide: provide, SKeys: [][]byte{skey1}}
		ob := Options{Rand: newRand("B"), SKeys: [][]byte{skey1}}
		r := runPair(t, ca, cb, oa, ob)
		if !errors.Is(r.errB, ErrNoCommonCrypto) {
			t.Errorf("provide %x: errB = %v", provide, r.errB)
		}
		if r.errA == nil {
			t.Errorf("provide %x: initiator succeeded", provide)
		}
		if r.b == nil || r.b.Provide != provide {
			t.Errorf("provide %x: partial result %+v", provide, r.b)
		}
	}
}

func TestUnknownSKey(t *testing.T) {
	ca, cb := bufPipe()
	oa := Options{Rand: newRand("A"), Provide: 3, SKeys: [][]byte{skey1}}
	ob := Options{Rand: newRand("B"), SKeys: [][]byte{skey2, skey3}}
	r := runPair(t, ca, cb, oa, ob)
	if !errors.Is(r.errB, ErrUnknownSKey) || r.errA == nil {
		t.Errorf("errA=%v errB=%v", r.errA, r.errB)
	}
}

func TestBadOptions(t *testing.T) {
	ca, _ := bufPipe()
	bad := []Options{
		{SKeys: [][]byte{skey1}},                                     // no Rand
		{Rand: newRand("x")},                                         // no key
		{Rand: newRand("x"), SKeys: [][]byte{skey1, skey2}},          // initiator with two keys
		{Rand: newRand("x"), SKeys: [][]byte{skey1}, PadCLen: 70000}, // PadC does not fit 16 bits
		{Rand: newRand("x"), SKeys: [][]byte{skey1}, IA: make([]byte, 65536)},
		{Rand: newRand("x"), SKeys: [][]byte{skey1}, PrivBits: -1},
		{Rand: newRand("x"), SKeys: [][]byte{skey1}, PrivBits: 769},
	}
	for i, o := range bad {
		if _, err := Initiate(ca, o); !errors.Is(err, ErrOptions) {
			t.Errorf("Initiate case %d: %v", i, err)
		}
	}
	if _, err := Respond(ca, Options{Rand: newRand("x")}); !errors.Is(err, ErrOptions) {
		t.Errorf("Respond without keys: %v", err)
	}
	if _, err := Respond(ca, Options{SKeys: [][]byte{skey1}}); !errors.Is(err, ErrOptions) {
		t.Errorf("Respond without Rand: %v", err)
	}
	// A Rand that runs dry is reported.
	if _, err := Initiate(ca, Options{Rand: bytes.NewReader(make([]byte, 10)), SKeys: [][]byte{skey1}}); err == nil {
		t.Error("short Rand accepted")
	}
}

// TestOversizedPads: a peer whose pad exceeds 512 (+slack) is rejected with
// ErrNoSync after a bounded number of bytes; declared PadC/PadD > 512 give
// ErrBadPadLen.
func TestOversizedPads(t *testing.T) {
	// PadA too long: responder gives up.
	ca, cb := bufPipe()
	oa := Options{Rand: newRand("A"), Provide: 3, PadLen: MaxPad + ScanSlack + 1, SKeys: [][]byte{skey1}}
	ob := Options{Rand: newRand("B"), SKeys: [][]byte{skey1}}
	r := runPair(t, ca, cb, oa, ob)
	if !errors.Is(r.errB, ErrNoSync) {
		t.Errorf("long PadA: errB = %v", r.errB)
	}
	// Within the slack it still works, and the length is reported.
	ca, cb = bufPipe()
	oa = Options{Rand: newRand("A"), Provide: 3, PadLen: MaxPad + ScanSlack, SKeys: [][]byte{skey1}}
	ob = Options{Rand: newRand("B"), PadLen: MaxPad + ScanSlack, SKeys: [][]byte{skey1}}
	r = runPair(t, ca, cb, oa, ob)
	if r.errA != nil || r.errB != nil || r.b.PeerPadLen != MaxPad+ScanSlack || r.a.PeerPadLen != MaxPad+ScanSlack {
		t.Errorf("pad within slack: %v %v", r.errA, r.errB)
	}
	// PadB too long: initiator gives up.
	ca, cb = bufPipe()
	oa = Options{Rand: newRand("A"), Provide: 3, SKeys: [][]byte{skey1}}
	ob = Options{Rand: newRand("B"), PadLen: MaxPad + ScanSlack + 1, SKeys: [][]byte{skey1}}
	r = runPair(t, ca, cb, oa, ob)
	if !errors.Is(r.errA, ErrNoSync) {
		t.Errorf("long PadB: errA = %v", r.errA)
	}
	// PadC declared too long.
	ca, cb = bufPipe()
	oa = Options{Rand: newRand("A"), Provide: 3, PadCLen: 513, SKeys: [][]byte{skey1}}
	ob = Options{Rand: newRand("B"), SKeys: [][]byte{skey1}}
	r = runPair(t, ca, cb, oa, ob)
	if !errors.Is(r.errB, ErrBadPadLen) {
		t.Errorf("long PadC: errB = %v", r.errB)
	}
	// PadD declared too long.
	ca, cb = bufPipe()
	oa = Options{Rand: newRand("A"), Provide: 3, SKeys: [][]byte{skey1}}
	ob = Options{Rand: newRand("B"), PadCLen: 513, SKeys: [][]byte{skey1}}
	r = runPair(t, ca, cb, oa, ob)
	if !errors.Is(r.errA, ErrBadPadLen) {
		t.Errorf("long PadD: errA = %v", r.errA)
	}
}

// TestBadVC: correct hashes followed by garbage instead of ENCRYPT(VC ...).
func TestBadVC(t *testing.T) {
	ca, cb := bufPipe()
	done := make(chan error, 1)
	go func() {
		_, err := Respond(cb, Options{Rand: newRand("B"), SKeys: [][]byte{skey1}})
		done <- err
	}()
	priv := big.NewInt(99)
	ca.Write(DHPublic(priv))
	yb := make([]byte, KeyLen)
	io.ReadFull(ca, yb)
	S := DHSecret(priv, yb)
	ca.Write(Req1(S))
	ca.Write(Req2XorReq3(skey1, S))
	ca.Write(make([]byte, 14)) // unencrypted zeros: decrypts to non-zero VC
	if err := <-done; !errors.Is(err, ErrBadVC) {
		t.Errorf("err = %v", err)
	}
}

// scripted is a connection that plays back fixed input and discards output.
type scripted struct {
	in *bytes.Reader
}

func (s *scripted) Read(p []byte) (int, error)  { return s.in.Read(p) }
func (s *scripted) Write(p []byte) (int, error) { return len(p), nil }

// TestHostileInput: garbage of every length up to well past the scanning
// bound, and truncations at every point, yield errors and bounded reads, never
// panics or hangs.
func TestHostileInput(t *testing.T) {
	r := newRand("garbage")
	garbage := make([]byte, 4096)
	r.Read(garbage)
	lengths := []int{0, 1, 95, 96, 97, 96 + 20, 96 + 512, 96 + 519, 96 + 520, 96 + 531, 96 + 532, 96 + 540, 1000, 4096}
	for _, n := range lengths {
		for _, zero := range []bool{false, true} {
			in := append([]byte(nil), garbage[:n]...)
			if zero {
				for i := range in {
					in[i] = 0
				}
			}
			s := &scripted{in: bytes.NewReader(in)}
			if _, err := Respond(s, Options{Rand: newRand("B"), SKeys: [][]byte{skey1}}); err == nil {
				t.Errorf("Respond accepted %d bytes of garbage", n)
			}
			// Bound: Ya + pad + slack + hash, rounded up to what the
			// buffered reader may have read ahead.
			if consumed := n - s.in.Len(); consumed > KeyLen+MaxPad+ScanSlack+20+4096 {
				t.Errorf("Respond consumed %d bytes", consumed)
			}
			s = &scripted{in: bytes.NewReader(in)}
			if _, err := Initiate(s, Options{Rand: newRand("A"), Provide: 3, SKeys: [][]byte{skey1}}); err == nil {
				t.Errorf("Initiate accepted %d bytes of garbage", n)
			}
		}
	}
	// The scan bounds are exact: with precisely Ya + (MaxPad+ScanSlack) +
	// hash bytes of garbage the responder reports ErrNoSync (not an EOF,
	// which it would if it wanted to look any further), and with one byte
	// less it reports an EOF.  Likewise for the initiator and ENCRYPT(VC).
	nB := KeyLen + MaxPad + ScanSlack + 20
	nA := KeyLen + MaxPad + ScanSlack + 8
	for _, n := range []int{nB, 4096} {
		_, err := Respond(&scripted{in: bytes.NewReader(garbage[:n])}, Options{Rand: newRand("B"), SKeys: [][]byte{skey1}})
		if !errors.Is(err, ErrNoSync) {
			t.Errorf("Respond, %d bytes: err = %v", n, err)
		}
	}
	for _, n := range []int{nA, 4096} {
		_, err := Initiate(&scripted{in: bytes.NewReader(garbage[:n])}, Options{Rand: newRand("A"), Provide: 3, SKeys: [][]byte{skey1}})
		if !errors.Is(err, ErrNoSync) {
			t.Errorf("Initiate, %d bytes: err = %v", n, err)
		}
	}
	if _, err := Respond(&scripted{in: bytes.NewReader(garbage[:nB-1])}, Options{Rand: newRand("B"), SKeys: [][]byte{skey1}}); !errors.Is(err, io.ErrUnexpectedEOF) {
		t.Errorf("Respond, %d bytes: err = %v", nB-1, err)
	}
	if _, err := Initiate(&scripted{in: bytes.NewReader(garbage[:nA-1])}, Options{Rand: newRand("A"), Provide: 3, SKeys: [][]byte{skey1}}); !errors.Is(err, io.ErrUnexpectedEOF) {
		t.Errorf("Initiate, %d bytes: err = %v", nA-1, err)
	}

	// Truncate a valid conversation at every offset, in both directions.
	ca, cb := bufPipe()
	oa := Options{Rand: newRand("A"), Provide: 3, PadLen: 20, PadCLen: 10, IA: []byte("abcdef"), SKeys: [][]byte{skey1}}
	ob := Options{Rand: newRand("B"), PadLen: 30, PadCLen: 15, SKeys: [][]byte{skey1}}
	good := runPair(t, ca, cb, oa, ob)
	checkResults(t, good, oa, ob, CryptoRC4)
	hsA := KeyLen + 20 + 40 + 14 + 10 + 2 + 6 // A's handshake bytes
	hsB := KeyLen + 30 + 14 + 15              // B's handshake bytes
	for cut := 0; cut < hsA; cut++ {
		s := &scripted{in: bytes.NewReader(good.aOut[:cut])}
		ob.Rand = newRand("B")
		if _, err := Respond(s, ob); err == nil {
			t.Fatalf("Respond succeeded on input cut at %d", cut)
		}
	}
	for cut := 0; cut < hsB; cut++ {
		s := &scripted{in: bytes.NewReader(good.bOut[:cut])}
		oa.Rand = newRand("A")
		if _, err := Initiate(s, oa); err == nil {
			t.Fatalf("Initiate succeeded on input cut at %d", cut)
		}
	}
	// Replaying the complete recorded streams succeeds (same Rand, hence
	// same keys) and yields the recorded payload.
	ob.Rand = newRand("B")
	rb, err := Respond(&scripted{in: bytes.NewReader(good.aOut)}, ob)
	if err != nil {
		t.Fatal(err)
	}
	got, _ := io.ReadAll(rb.RW)
	if !bytes.Equal(got, bytes.Repeat([]byte("from A to B. "), 300)) {
		t.Error("replayed A->B payload differs")
	}
	oa.Rand = newRand("A")
	ra, err := Initiate(&scripted{in: bytes.NewReader(good.bOut)}, oa)
	if err != nil {
		t.Fatal(err)
	}
	got, _ = io.ReadAll(ra.RW)
	if !bytes.Equal(got, bytes.Repeat([]byte("from B to A! "), 500)) {
		t.Error("replayed B->A payload differs")
	}

	// Flip each byte of B's handshake in turn: the initiator must never
	// panic, whatever it concludes.
	for i := 0; i < hsB; i++ {
		in := append([]byte(nil), good.bOut[:hsB]...)
		in[i] ^= 0x01
		oa.Rand = newRand("A")
		Initiate(&scripted{in: bytes.NewReader(in)}, oa)
	}
	for i := 0; i < hsA; i++ {
		in := append([]byte(nil), good.aOut[:hsA]...)
		in[i] ^= 0x01
		ob.Rand = newRand("B")
		Respond(&scripted{in: bytes.NewReader(in)}, ob)
	}
}

// TestWriteDoesNotModifyCaller checks the io.Writer contract of the RC4
// stream.
func TestWriteDoesNotModifyCaller(t *testing.T) {
	ca, cb := bufPipe()
	go Respond(cb, Options{Rand: newRand("B"), SKeys: [][]byte{skey1}})
	a, err := Initiate(ca, Options{Rand: newRand("A"), Provide: CryptoRC4, SKeys: [][]byte{skey1}})
	if err != nil {
		t.Fatal(err)
	}
	msg := []byte("do not touch")
	a.RW.Write(msg)
	if string(msg) != "do not touch" {
		t.Error("Write modified the caller's buffer")
	}
}
