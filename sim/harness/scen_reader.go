package harness

import (
	"bazil.org/fuse"
	"bazil.org/fuse/fs"
	"bytes"
	"context"
	"errors"
	"fmt"
	sfuse "github.com/jech/storrent/fuse"
	"io"
	"net/http"
	"net/http/httptest"
	"net/netip"
	"net/url"
	"sort"
	"strings"
	"time"

	"github.com/jech/storrent/alloc"
	"github.com/jech/storrent/config"
	shttp "github.com/jech/storrent/http"
	"github.com/jech/storrent/known"
	"github.com/jech/storrent/tor"
	"github.com/jech/storrent/zzsim/simnet"
	"github.com/jech/storrent/zzsim/simrt"
)

func init() {
	// register the HTTP handlers on the default mux (an existing seam: Serve
	// registers, then fails to listen on an unusable address)
	shttp.Serve("256.256.256.256:0")
	Register(&Scenario{
		Name: "reader", Knobs: true, Props: []string{"C02"}, CrashTo: "",
		Horizon: 6 * time.Hour, MaxSteps: 1500000, Weight: 1, Main: readerMain,
		NontrivialNeedsFault: true,
	})
}

type readerEnv struct {
	rc       *RunCtx
	w        *World
	spec     *TorSpec
	t        *tor.Torrent
	faultsOn bool
	killed   bool
	killAt   uint64
	killTime time.Time
	// blocked[u]: user u has been inside one Read (or one HTTP request)
	// since that time; gone[u]: when its context was cancelled
	blocked map[int]time.Time
	gone    map[int]time.Time
}

// watchHangs is the promptness monitor: once the torrent is deleted or a
// user's context is cancelled, a call that was blocked, or blocks
// afterwards, must return; one that is still blocked a simulated minute
// later hangs.
func (e *readerEnv) watchHangs(nusers int) {
	for !e.w.stopped && !e.rc.Failed() {
		simrt.Sleep(5 * time.Second)
		now := time.Now()
		var keys []int
		for u := range e.blocked {
			keys = append(keys, u)
		}
		sort.Ints(keys)
		for _, u := range keys {
			since := e.blocked[u]
			var why string
			var from time.Time
			if e.killed && !e.killTime.IsZero() {
				why, from = "the torrent was deleted", e.killTime
			}
			if g, ok := e.gone[u]; ok && (from.IsZero() || g.Before(from)) {
				why, from = "its context was cancelled", g
			}
			if from.IsZero() {
				continue
			}
			if since.After(from) {
				from = since
			}
			if now.Sub(from) > time.Minute {
				e.rc.Fail("C02", "promptness", "hangs", "user %d (100(u+1)+k: fuse thread k of user u) is still blocked in a read %v after %s", u, now.Sub(from), why)
				e.rc.S.Abort("a read hangs")
				return
			}
		}
	}
}

// drawSeedCfg draws an honest, unchoking seed.
func drawSeedCfg(st *simrt.Stream, name string, port int) PeerCfg {
	return PeerCfg{
		Name: name, Port: port, Fast: st.Bool(1, 2), Ext: st.Bool(2, 3), DHT: st.Bool(1, 3),
		MSE: st.Bool(1, 3), Have: func(int) bool { return true }, Advertise: DrawAdvertise(st), Reqq: simrt.Pick(st, -1, 250, 16, 2),
		MetadataSize: -1, UnchokeAfter: time.Duration(st.Choice(3)) * time.Second,
		AnswerDelay:       func() time.Duration { return time.Duration(st.Choice(40)) * time.Millisecond },
		ChokeUninterested: st.Bool(1, 2),
		NoDontHave:        st.Bool(1, 3),
	}
}

func readerMain(rc *RunCtx) {
	st := rc.St
	w := NewWorld(rc)
	defer w.Shutdown()
	spec := GenTorSpec(st, SpecOpts{MaxPieces: 10, Big: st.Bool(1, 5)})
	config.PrefetchRate = float64(simrt.Pick(st, 0, 65536, 768*1024))
	config.SetIdleRate(uint32(simrt.Pick(st, 0, 0, 65536)))
	t, err := w.AddTorrent(spec, false, "")
	if err != nil {
		rc.Fail("C02", "setup", "", "AddTorrent: %v", err)
		return
	}
	env := &readerEnv{rc: rc, w: w, spec: spec, t: t, faultsOn: true}
	withFaults := !st.Bool(1, 5)
	w.Link = func() (simnet.LinkCfg, simnet.LinkCfg) { return drawSysLink(st) }
	nseeds := 1 + st.Choice(3)
	var seeds []*RefPeer
	for i := 0; i < nseeds; i++ {
		p := w.NewPeer(spec, drawSeedCfg(st, fmt.Sprintf("seed%d", i), 7000+i))
		seeds = append(seeds, p)
		if st.Bool(1, 2) {
			p.Connect()
		} else {
			t.AddKnown(p.Addr, nil, "", known.Tracker)
		}
	}
	var bad *RefPeer
	if withFaults && st.Bool(1, 3) {
		cfg := drawSeedCfg(st, "corrupter", 7100)
		cfg.AnswerWeights = []int{3, 0, 1, 1, 1, 1, 1, 3, 1, 1}
		bad = w.NewPeer(spec, cfg)
		bad.Connect()
	}
	w.StartQuiescer(5 * time.Second)
	// memory pressure: the eviction loop of package main
	evicting := withFaults && st.Bool(2, 3)
	if evicting {
		config.MemoryMark = spec.Geo.PieceSize * int64(2+st.Choice(4))
		simrt.GoNamed("expire-loop", func() {
			interval := 16 * time.Second
			for env.faultsOn {
				r := tor.Expire()
				if r < 0 {
					simrt.Fault("eviction-pass")
					interval = max(interval/2, 250*time.Millisecond)
				} else if r > 0 {
					interval = min(interval*2, 16*time.Second)
				}
				simrt.Sleep(interval)
			}
		})
		if st.Bool(1, 2) {
			// targeted: evict everything now and then
			simrt.GoNamed("evict-all", func() {
				for env.faultsOn {
					simrt.Sleep(time.Duration(1+st.Choice(20)) * time.Second)
					if !env.faultsOn {
						return
					}
					simrt.Fault("evict-all")
					t.Pieces.Expire(0, nil, func(i uint32) { t.Have(i, false) })
				}
			})
		}
	}
	rc.SetSample("torrent", fmt.Sprintf("piece=%dK pieces=%d length=%d files=%d prefetch=%v seeds=%d corrupter=%v evicting=%v mark=%d", spec.Geo.PieceSize>>10, spec.Geo.NPieces, spec.Geo.Length, len(spec.Files), config.PrefetchRate, nseeds, bad != nil, evicting, config.MemoryMark))

	nusers := 1 + st.Choice(3)
	join := &Join{n: nusers}
	kill := withFaults && st.Bool(1, 6)
	env.blocked, env.gone = map[int]time.Time{}, map[int]time.Time{}
	simrt.GoNamed("hang-watchdog", func() { env.watchHangs(nusers) })
	usersLeft := nusers // the racing reader goes on while they do
	if st.Bool(1, 2) {
		// a reader that opens on whatever piece is being hashed, at that
		// very step, and reads once: the first request of a fresh reader
		// crosses the completion of its piece
		join.n++
		simrt.GoNamed("racing-reader", func() {
			defer join.Done()
			for k := 0; k < 30 && usersLeft > 0 && !w.stopped && !env.killed && !rc.Failed(); k++ {
				target := -1
				if !simrt.AwaitStep(func() bool {
					for j := 0; j < min(spec.Geo.NPieces, 64); j++ {
						if t.Pieces.SimState(j) == 2 {
							target = j
							return true
						}
					}
					return false
				}, 5*time.Second) {
					continue
				}
				simrt.Probe("reader-opened-on-a-piece-being-hashed")
				o := int64(target) * spec.Geo.PieceSize
				n := min(spec.Geo.Length-o, 1000)
				ctx, cancel := context.WithCancel(context.Background())
				rd := t.NewReader(ctx, o, n)
				buf := make([]byte, n)
				got := 0
				finished := false
				simrt.GoNamed("racing-reader-watch", func() {
					// the piece is verified (or was, and is being fetched
					// again from the honest seeds): the read returns
					limit := time.Now().Add(300 * time.Second)
					for !finished && !w.stopped && !env.killed && (env.faultsOn || time.Now().Before(limit)) {
						simrt.Sleep(time.Second)
						if env.faultsOn {
							limit = time.Now().Add(300 * time.Second)
						}
					}
					if !finished && !w.stopped && !env.killed && !rc.Failed() {
						rc.Fail("C02", "liveness", "fresh-reader-stalled", "a reader opened on piece %d while it was being hashed is still blocked in its first read 300 s after faults stopped (piece complete now: %v), with an honest unchoking seed connected", target, t.Pieces.Complete(uint32(target)))
						rc.S.Abort("a fresh reader stalls")
					}
				})
				for got < int(n) {
					m, err := rd.Read(buf[got:])
					got += m
					if err != nil {
						break
					}
					if m == 0 {
						simrt.Sleep(20 * time.Millisecond)
					}
				}
				finished = true
				if got > 0 && !bytes.Equal(buf[:got], spec.Bytes(o, int64(got))) {
					rc.Fail("C02", "content", "racing-reader", "a reader opened on piece %d while it was being hashed returned bytes that are not the torrent's", target)
				}
				cancel()
				rd.Close()
				simrt.Sleep(time.Duration(st.Choice(2000)) * time.Millisecond)
			}
		})
	}
	for u := 0; u < nusers; u++ {
		u := u
		kind := st.Weighted(3, 2, 2)
		simrt.GoNamed(fmt.Sprintf("user%d", u), func() {
			defer join.Done()
			defer func() { usersLeft-- }()
			switch kind {
			case 0:
				env.rawUser(u, withFaults)
			case 1:
				env.httpUser(u, withFaults)
			case 2:
				env.fuseUser(u, withFaults)
			}
		})
	}
	// the fault phase ends after a drawn time
	faultTime := time.Duration(3+st.Choice(40)) * time.Second
	simrt.GoNamed("fault-phase", func() {
		simrt.Sleep(faultTime)
		if kill {
			simrt.Fault("torrent-killed")
			env.killed = true
			ctx, cancel := context.WithTimeout(context.Background(), time.Minute)
			t.Kill(ctx)
			cancel()
			env.killAt = rc.Tick()
			env.killTime = time.Now()
		}
		env.faultsOn = false
		config.MemoryMark = 1 << 40
		if bad != nil {
			bad.Disconnect(false)
		}
		rc.Tracef("faults stop")
		// the liveness clause presupposes an honest, unchoking seed that is
		// connected: seeds the system dropped (e.g. after a hash failure
		// they took part in) come back
		for !w.stopped {
			for _, s := range seeds {
				if s.Closed || s.conn == nil {
					simrt.Probe("seed-reconnects")
					s.Connect()
				} else if s.Ready && s.ChokingSys && (!s.Cfg.ChokeUninterested || s.SysInterested) {
					// (a seed that chokes whoever is not interested is an
					// unchoking seed all the same: saying "interested" is the
					// system's part)
					s.Unchoke()
				}
			}
			simrt.Sleep(20 * time.Second)
		}
	})
	join.Wait()
}

// ---- raw tor.Reader user ---------------------------------------------------------------

func (e *readerEnv) rawUser(u int, withFaults bool) {
	rc, st, spec := e.rc, e.rc.St, e.spec
	L := spec.Geo.Length
	// any range inside the torrent; sometimes a file
	off := int64(st.Choice(int(L)))
	length := int64(st.Choice(int(L-off) + 1))
	switch st.Weighted(3, 2, 1, 1) {
	case 1:
		off, length = 0, L
	case 2:
		off, length = L-1, 1
	case 3:
		if len(spec.Files) > 0 {
			f := spec.Files[st.Choice(len(spec.Files))]
			off, length = f.Offset, f.Length
		}
	}
	model := spec.Bytes(off, length)
	ctx, cancel := context.WithCancel(context.Background())
	defer cancel()
	r := e.t.NewReader(ctx, off, length)
	defer r.Close()
	cancelAt := -1
	if withFaults && st.Bool(1, 8) {
		cancelAt = st.Choice(12)
	}
	rc.Tracef("user%d: raw reader off=%d len=%d cancelAt=%d", u, off, length, cancelAt)
	pos := int64(0)
	nops := 3 + st.Choice(10)
	cancelled := false
	for op := 0; ; op++ {
		final := op >= nops
		if !final {
			// think time: lets evictions and peer trouble land between two reads
			simrt.Sleep(time.Duration(st.Choice(6000)) * time.Millisecond)
		} else if op == nops {
			for e.faultsOn {
				simrt.Sleep(time.Second)
			}
			simrt.Probe("final-phase-read")
		}
		if op == cancelAt {
			simrt.Fault("reader-context-cancelled")
			if st.Bool(1, 2) {
				// while the next read is under way
				d := time.Duration(st.Choice(5000)) * time.Millisecond
				simrt.GoNamed("reader-cancel", func() {
					simrt.Sleep(d)
					cancelled = true
					e.gone[u] = time.Now()
					cancel()
				})
			} else {
				cancel()
				cancelled = true
				e.gone[u] = time.Now()
			}
		}
		if !final && st.Bool(1, 4) {
			// seek
			whence := st.Choice(3)
			var o int64
			switch st.Weighted(3, 1, 1) {
			case 0:
				o = int64(st.Choice(int(length) + 1))
				if whence == io.SeekEnd {
					o = -o
				} else if whence == io.SeekCurrent {
					o -= pos
				}
			case 1:
				o = length + int64(st.Choice(100)) // beyond the end
				whence = io.SeekStart
			default:
				o = -int64(1 + st.Choice(100)) // negative position
				whence = io.SeekStart
			}
			var want int64
			switch whence {
			case io.SeekStart:
				want = o
			case io.SeekCurrent:
				want = pos + o
			case io.SeekEnd:
				want = length + o
			}
			got, err := r.Seek(o, whence)
			if want < 0 {
				if err == nil {
					rc.Fail("C02", "seek", "negative", "Seek(%d,%d) from %d gave %d, nil; want an error", o, whence, pos, got)
					return
				}
				continue
			}
			if err != nil || got != want {
				rc.Fail("C02", "seek", "", "Seek(%d,%d) from %d gave %d, %v; want %d", o, whence, pos, got, err, want)
				return
			}
			pos = want
			continue
		}
		// read; in the final phase read everything that is left
		size := simrt.Pick(st, 4096, 1, 100, 16384, 32768, int(spec.Geo.PieceSize)*2+7)
		buf := make([]byte, size)
		if pos < length && st.Bool(1, 4) {
			// aimed: jump, at the step at which some piece of the range is
			// being hashed (a prefetched one, or one another user asked for),
			// to that piece and read it - the reader's first request for it
			// and its completion cross
			lo, hi := int(off/spec.Geo.PieceSize), int((off+length-1)/spec.Geo.PieceSize)
			target := -1
			if simrt.AwaitStep(func() bool {
				for j := lo; j <= hi; j++ {
					if e.t.Pieces.SimState(j) == 2 {
						target = j
						return true
					}
				}
				return false
			}, time.Duration(1+st.Choice(10))*time.Second) {
				to := max(int64(target)*spec.Geo.PieceSize-off, 0)
				if got, err := r.Seek(to, io.SeekStart); err == nil && got == to {
					pos = to
					simrt.Probe("read-aimed-at-a-piece-being-hashed")
				}
			}
		}
		deadline := time.Now().Add(e.liveBound(pos, length))
		zeros := 0
		for {
			e.blocked[u] = time.Now()
			n, err := r.Read(buf)
			delete(e.blocked, u)
			if n < 0 || n > len(buf) {
				rc.Fail("C02", "read-count", "", "Read returned n=%d for a %d-byte buffer", n, len(buf))
				return
			}
			if n > 0 {
				rc.Progress()
				if pos+int64(n) > length {
					rc.Fail("C02", "beyond-range", "", "reader (off=%d len=%d) at %d returned %d bytes: %d beyond its range", off, length, pos, n, pos+int64(n)-length)
					return
				}
				if !bytes.Equal(buf[:n], model[pos:pos+int64(n)]) {
					k := 0
					for buf[k] == model[pos+int64(k)] {
						k++
					}
					rc.Fail("C02", "content", classifyByte(buf[k]), "reader (off=%d len=%d): byte at position %d is %#x, the torrent has %#x", off, length, pos+int64(k), buf[k], model[pos+int64(k)])
					return
				}
				pos += int64(n)
			}
			if err == io.EOF {
				if pos < length {
					rc.Fail("C02", "early-eof", "", "reader (off=%d len=%d) reported EOF at position %d", off, length, pos)
				}
				if final {
					return
				}
				break
			}
			if err != nil {
				if cancelled || e.killed {
					simrt.Probe("read-failed-after-cancel-or-kill")
					return
				}
				rc.Fail("C02", "read-error", "", "reader (off=%d len=%d) at %d: %v", off, length, pos, err)
				return
			}
			if n > 0 && pos >= length && err == nil {
				// EOF must be reported at length, at the latest by the next call
				n2, err2 := r.Read(buf)
				if n2 != 0 || err2 != io.EOF {
					rc.Fail("C02", "eof", "", "reader at its end (%d) returned %d, %v; want 0, EOF", length, n2, err2)
					return
				}
				if final {
					return
				}
				break
			}
			if n > 0 {
				if !final {
					break
				}
				deadline = time.Now().Add(e.liveBound(pos, length))
				continue
			}
			// (0, nil): nothing yet
			if cancelled || e.killed {
				// must fail promptly instead of returning nothing for ever
				zeros++
				if zeros > 500 {
					rc.Fail("C02", "promptness", "", "reader keeps returning (0, nil) 5 s after its context was cancelled or the torrent deleted")
					return
				}
			}
			simrt.Probe("read-zero-nil")
			simrt.Sleep(10 * time.Millisecond)
			if !e.faultsOn && time.Now().After(deadline) && !cancelled && !e.killed {
				rc.Fail("C02", "liveness", "stalled", "reader (off=%d len=%d) stuck at position %d (piece %d): no byte for %v after faults stopped, with an honest unchoking seed connected", off, length, pos, (off+pos)/spec.Geo.PieceSize, e.liveBound(pos, length))
				return
			}
			if e.faultsOn {
				deadline = time.Now().Add(e.liveBound(pos, length))
			}
		}
	}
}

func (e *readerEnv) liveBound(pos, length int64) time.Duration {
	return 300 * time.Second
}

// ---- HTTP user ------------------------------------------------------------------------------

func (e *readerEnv) fileURL(f *FileSpec) string {
	if f == nil {
		return fmt.Sprintf("/%x/%s", e.spec.InfoHash, url.PathEscape(e.spec.Name))
	}
	var parts []string
	for _, c := range f.Path {
		parts = append(parts, url.PathEscape(c))
	}
	return fmt.Sprintf("/%x/%s", e.spec.InfoHash, strings.Join(parts, "/"))
}

func (e *readerEnv) httpUser(u int, withFaults bool) {
	rc, st, spec := e.rc, e.rc.St, e.spec
	var f *FileSpec
	off, length := int64(0), spec.Geo.Length
	if len(spec.Files) > 0 {
		f = &spec.Files[st.Choice(len(spec.Files))]
		off, length = f.Offset, f.Length
	}
	model := spec.Bytes(off, length)
	nreq := 2 + st.Choice(3)
	for q := 0; q < nreq; q++ {
		if q == nreq-1 {
			// the last request is made once faults have stopped
			for e.faultsOn {
				simrt.Sleep(time.Second)
			}
		} else {
			simrt.Sleep(time.Duration(st.Choice(8000)) * time.Millisecond)
		}
		method := simrt.Pick(st, "GET", "GET", "HEAD")
		req := httptest.NewRequest(method, "http://localhost:8088"+e.fileURL(f), nil)
		req.Host = "localhost:8088"
		wantStatus := 200
		lo, hi := int64(0), length // body = model[lo:hi]
		rangeHdr := ""
		if length > 0 {
			switch st.Weighted(3, 3, 2, 2, 1) {
			case 1:
				a := int64(st.Choice(int(length)))
				b := a + int64(st.Choice(int(length-a)+50))
				rangeHdr = fmt.Sprintf("bytes=%d-%d", a, b)
				wantStatus, lo, hi = 206, a, min(b+1, length)
			case 2:
				a := int64(st.Choice(int(length)))
				rangeHdr = fmt.Sprintf("bytes=%d-", a)
				wantStatus, lo, hi = 206, a, length
			case 3:
				n := int64(1 + st.Choice(int(length)+50))
				rangeHdr = fmt.Sprintf("bytes=-%d", n)
				wantStatus, lo, hi = 206, max(0, length-n), length
			case 4:
				a := length + int64(st.Choice(50))
				rangeHdr = fmt.Sprintf("bytes=%d-", a)
				wantStatus, lo, hi = 416, 0, 0
			}
		}
		if rangeHdr != "" {
			req.Header.Set("Range", rangeHdr)
		}
		ctx, cancel := context.WithCancel(context.Background())
		cancelled := false
		finished := false
		if withFaults && st.Bool(1, 8) {
			d := time.Duration(st.Choice(20000)) * time.Millisecond
			simrt.Fault("http-client-gone")
			simrt.GoNamed("http-cancel", func() {
				simrt.Sleep(d)
				if finished {
					return
				}
				cancelled = true
				e.gone[u] = time.Now()
				cancel()
			})
		}
		rec := httptest.NewRecorder()
		rc.Tracef("user%d: %s %s Range=%q", u, method, req.URL.Path, rangeHdr)
		stalled := false
		simrt.GoNamed("http-watchdog", func() {
			for e.faultsOn && !finished {
				simrt.Sleep(time.Second)
			}
			limit := time.Now().Add(time.Duration(spec.Geo.NPieces+1) * 300 * time.Second)
			for !finished && time.Now().Before(limit) {
				simrt.Sleep(time.Second)
			}
			if !finished && !cancelled && !e.killed {
				stalled = true
				cancel()
			}
		})
		e.blocked[u] = time.Now()
		http.DefaultServeMux.ServeHTTP(rec, req.WithContext(ctx))
		delete(e.blocked, u)
		delete(e.gone, u)
		finished = true
		cancel()
		if stalled {
			rc.Fail("C02", "liveness", "http-stalled", "%s %s Range=%q did not finish within %d x 300 s after faults stopped, with an honest unchoking seed connected; %d bytes had been sent", method, req.URL.Path, rangeHdr, spec.Geo.NPieces+1, rec.Body.Len())
			return
		}
		body := rec.Body.Bytes()
		rc.Tracef("user%d: -> %d, %d bytes, Content-Range=%q", u, rec.Code, len(body), rec.Header().Get("Content-Range"))
		if cancelled || e.killed {
			// the transfer may have been cut: what was sent must still be right
			if rec.Code == 200 || rec.Code == 206 {
				if rec.Code == wantStatus && method == "GET" && (len(body) > int(hi-lo) || !bytes.Equal(body, model[lo:lo+int64(len(body))])) {
					rc.Fail("C02", "http-content", "partial", "%s Range=%q: the %d bytes sent before the transfer was cut differ from the file", req.URL.Path, rangeHdr, len(body))
					return
				}
			}
			continue
		}
		if rec.Code != wantStatus {
			rc.Fail("C02", "http-status", fmt.Sprint(rec.Code), "%s %s Range=%q (file of %d bytes): status %d, want %d", method, req.URL.Path, rangeHdr, length, rec.Code, wantStatus)
			return
		}
		if wantStatus == 416 {
			continue
		}
		if cl := rec.Header().Get("Content-Length"); cl != fmt.Sprint(hi-lo) {
			rc.Fail("C02", "http-length", "", "%s Range=%q: Content-Length %q, want %d", req.URL.Path, rangeHdr, cl, hi-lo)
			return
		}
		if wantStatus == 206 {
			want := fmt.Sprintf("bytes %d-%d/%d", lo, hi-1, length)
			if cr := rec.Header().Get("Content-Range"); cr != want {
				rc.Fail("C02", "http-content-range", "", "%s Range=%q: Content-Range %q, want %q", req.URL.Path, rangeHdr, cr, want)
				return
			}
		}
		if method == "HEAD" {
			if len(body) != 0 {
				rc.Fail("C02", "http-head-body", "", "HEAD returned %d body bytes", len(body))
			}
			continue
		}
		if !bytes.Equal(body, model[lo:hi]) {
			k := 0
			for k < len(body) && k < int(hi-lo) && body[k] == model[lo+int64(k)] {
				k++
			}
			rc.Fail("C02", "http-content", "", "GET %s Range=%q: body has %d bytes, want %d; first difference at %d", req.URL.Path, rangeHdr, len(body), hi-lo, k)
			return
		}
		rc.Progress()
	}
}

// ---- FUSE user ------------------------------------------------------------------------------

// fuseUser drives the FUSE node tree the way bazil's fs.Serve does - Lookup
// from the root, Open, concurrent Read requests on one handle (the kernel
// issues read-ahead in parallel: fuse.AsyncRead), interrupted requests,
// Release - without a kernel mount.
func (e *readerEnv) fuseUser(u int, withFaults bool) {
	rc, st, spec := e.rc, e.rc.St, e.spec
	bg := context.Background()
	var f *FileSpec
	off, length := int64(0), spec.Geo.Length
	comps := []string{spec.Name}
	if len(spec.Files) > 0 {
		var cands []int
		for i := range spec.Files {
			if !spec.Files[i].Pad {
				cands = append(cands, i)
			}
		}
		if len(cands) == 0 {
			return
		}
		f = &spec.Files[cands[st.Choice(len(cands))]]
		off, length = f.Offset, f.Length
		comps = append(comps, f.Path...)
	}
	model := spec.Bytes(off, length)
	var node fs.Node = sfuse.SimRoot()
	for _, c := range comps {
		l, ok := node.(fs.NodeStringLookuper)
		if !ok {
			rc.Fail("C02", "fuse-lookup", "", "node %T on the way to %v cannot look names up", node, comps)
			return
		}
		n, err := l.Lookup(bg, c)
		if err != nil {
			if e.killed {
				return
			}
			rc.Fail("C02", "fuse-lookup", "", "Lookup(%q) on the way to %v: %v", c, comps, err)
			return
		}
		node = n
	}
	var attr fuse.Attr
	if err := node.Attr(bg, &attr); err == nil && int64(attr.Size) != length && !e.killed {
		rc.Fail("C02", "fuse-size", "", "%v: Attr reports %d bytes, the file has %d", comps, attr.Size, length)
		return
	}
	h, err := node.(fs.NodeOpener).Open(bg, &fuse.OpenRequest{Flags: fuse.OpenReadOnly}, &fuse.OpenResponse{})
	if err != nil {
		if e.killed {
			return
		}
		rc.Fail("C02", "fuse-open", "", "Open(%v): %v", comps, err)
		return
	}
	rc.Tracef("user%d: fuse handle on %v (off=%d len=%d)", u, comps, off, length)
	nthreads := 1 + st.Choice(3)
	nreads := 2 + st.Choice(8)
	final := false
	j := &Join{n: nthreads}
	for k := 0; k < nthreads; k++ {
		key := 100*(u+1) + k
		simrt.GoNamed(fmt.Sprintf("user%d-fuse%d", u, k), func() {
			defer j.Done()
			for op := 0; op < nreads && !rc.Failed(); op++ {
				simrt.Sleep(time.Duration(st.Choice(4000)) * time.Millisecond)
				if op == nreads-1 {
					for e.faultsOn {
						simrt.Sleep(time.Second)
					}
					final = true
				}
				o := int64(st.Choice(int(length) + 1))
				if st.Bool(1, 8) {
					o = length + int64(st.Choice(100000)) // at or beyond the end
				}
				size := simrt.Pick(st, 4096, 1, 16384, 65536, 131072, 1+st.Choice(200000))
				ctx, cancel := context.WithCancel(bg)
				interrupted := false
				returned := false // (an interrupt that fires after the request has returned concerns nobody)
				if withFaults && !final && st.Bool(1, 6) {
					d := time.Duration(st.Choice(5000)) * time.Millisecond
					simrt.Fault("fuse-request-interrupted")
					simrt.GoNamed("fuse-interrupt", func() {
						simrt.Sleep(d)
						if returned {
							return
						}
						interrupted = true
						e.gone[key] = time.Now()
						cancel()
					})
				}
				req := &fuse.ReadRequest{Offset: o, Size: size}
				resp := &fuse.ReadResponse{Data: make([]byte, 0, size)}
				e.blocked[key] = time.Now()
				err := h.(fs.HandleReader).Read(ctx, req, resp)
				returned = true
				delete(e.blocked, key)
				delete(e.gone, key)
				cancel()
				want := []byte{}
				if o < length {
					want = model[o:min(o+int64(size), length)]
				}
				got := resp.Data
				if len(got) > len(want) || !bytes.Equal(got, want[:len(got)]) {
					k := 0
					for k < len(got) && k < len(want) && got[k] == want[k] {
						k++
					}
					rc.Fail("C02", "fuse-content", "", "fuse read of %v at %d (%d bytes asked): %d bytes returned, the file has %d there; first difference at %d", comps, o, size, len(got), len(want), k)
					return
				}
				if err != nil || len(got) < len(want) {
					if interrupted || e.killed {
						simrt.Probe("fuse-read-cut-short-after-interrupt-or-kill")
						if e.killed {
							return
						}
						continue
					}
					rc.Fail("C02", "fuse-read", "", "fuse read of %v at %d (%d bytes asked) returned %d of %d bytes, error %v, with nothing cancelled and the torrent alive", comps, o, size, len(got), len(want), err)
					return
				}
				rc.Progress()
			}
		})
	}
	// the bounded-liveness clause for the last read of every thread
	simrt.GoNamed(fmt.Sprintf("user%d-fuse-watchdog", u), func() {
		for !final && j.n > 0 {
			simrt.Sleep(time.Second)
		}
		limit := time.Now().Add(time.Duration(spec.Geo.NPieces+1) * 300 * time.Second)
		for j.n > 0 && time.Now().Before(limit) {
			simrt.Sleep(time.Second)
		}
		if j.n > 0 && !e.killed && !rc.Failed() {
			rc.Fail("C02", "liveness", "fuse-stalled", "a fuse read of %v has not finished %d x 300 s after faults stopped, with an honest unchoking seed connected", comps, spec.Geo.NPieces+1)
			rc.S.Abort("a fuse read stalls")
		}
	})
	j.Wait()
	if r, ok := h.(fs.HandleReleaser); ok {
		if err := r.Release(bg, &fuse.ReleaseRequest{}); err != nil && !e.killed {
			rc.Fail("C02", "fuse-release", "", "Release: %v", err)
		}
	}
}

var _ = errors.New
var _ = alloc.Bytes
var _ netip.Addr
