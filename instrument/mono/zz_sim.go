package mono

import "time"

// SimReset re-bases the monotonic clock on the (fake) clock of the run.
func SimReset() { origin = time.Now().Add(-time.Second) }
