package harness

import (
	"bytes"
	"context"
	"fmt"
	"time"

	"github.com/jech/storrent/config"
	"github.com/jech/storrent/zzsim/simnet"
	"github.com/jech/storrent/zzsim/simrt"
)

// C02's liveness clause under write congestion, with the code's own queue
// lengths: a seed that is slow to read (a narrow TCP window, and for a while
// it does not read at all) while the system has a burst of messages for it
// - one have per piece it completes from another seed.  When the reader
// then needs pieces that only the slow seed holds, the requests are
// commanded to a peer whose write queue is more than half full.  Once the
// seed reads again everything drains; the honest, unchoking seed is
// connected and the blocked read must return.

func init() {
	Register(&Scenario{
		Name: "have-burst", Props: []string{"C02"}, CrashTo: "",
		Horizon: 6 * time.Hour, MaxSteps: 1500000, Weight: 1, Main: burstMain,
		NontrivialNeedsFault: true,
	})
}

func burstMain(rc *RunCtx) {
	st := rc.St
	w := NewWorld(rc)
	defer w.Shutdown()
	n := 24 + st.Choice(56)
	tail := 1 + st.Choice(3)
	spec := GenTorSpec(st, SpecOpts{PieceCounts: []int{n}, PieceSize: 16 << 10, MultiFile: 1})
	np := spec.Geo.NPieces
	config.SetIdleRate(0)
	config.PrefetchRate = float64(simrt.Pick(st, 0, 65536))
	t, err := w.AddTorrent(spec, false, "")
	if err != nil {
		rc.Fail("C02", "setup", "", "AddTorrent: %v", err)
		return
	}
	// the slow seed holds (at least) the tail; the fast one everything else
	slowAll := st.Bool(1, 3)
	window := simrt.Pick(st, 64, 128, 512, 4096)
	slowCfg := drawSeedCfg(st, "slow-seed", 7001)
	slowCfg.Have = func(i int) bool { return slowAll || i >= np-tail }
	slowCfg.UnchokeAfter = 0
	fastCfg := drawSeedCfg(st, "fast-seed", 7000)
	fastCfg.Have = func(i int) bool { return i < np-tail }
	fastCfg.UnchokeAfter = 0
	fastCfg.AnswerDelay = nil
	w.Link = func() (simnet.LinkCfg, simnet.LinkCfg) {
		out, in := drawSysLink(st)
		out.Window = window // what the system writes to the slow seed
		return out, in
	}
	slow := w.NewPeer(spec, slowCfg)
	slow.Connect()
	for k := 0; k < 100 && !slow.Ready && !slow.Closed; k++ {
		simrt.Sleep(100 * time.Millisecond)
	}
	if !slow.Ready {
		return
	}
	w.Link = func() (simnet.LinkCfg, simnet.LinkCfg) { return drawSysLink(st) }
	fast := w.NewPeer(spec, fastCfg)
	fast.Connect()
	// the slow seed stops reading; the head of the torrent is fetched from
	// the fast seed: one have per piece queues up for the slow one
	simrt.Fault("seed-stops-reading")
	slow.Cfg.StopRead = true
	for i := 0; i < np-tail; i++ {
		t.Request(uint32(i), 1, true, false)
	}
	limit := time.Now().Add(time.Duration(np+2) * 60 * time.Second)
	for t.Pieces.Count() < np-tail && time.Now().Before(limit) {
		simrt.Sleep(time.Second)
		if fast.Closed {
			fast.Connect()
		}
	}
	if t.Pieces.Count() < np-tail {
		simrt.Probe("head-not-fetched")
		return
	}
	rc.SetSample("setup", fmt.Sprintf("%d pieces of 16 KiB, the slow seed alone holds the last %d (window %d bytes towards it, holds everything: %v)", np, tail, window, slowAll))
	// what it had been asked for before it stopped reading times out
	simrt.Sleep(time.Duration(simrt.Pick(st, 100, 5, 40, 200)) * time.Second)
	// a reader on the tail
	off := int64(np-tail) * spec.Geo.PieceSize
	length := spec.Geo.Length - off
	model := spec.Bytes(off, length)
	ctx, cancel := context.WithCancel(context.Background())
	defer cancel()
	r := t.NewReader(ctx, off, length)
	defer r.Close()
	done := false
	pos := int64(0)
	simrt.GoNamed("tail-reader", func() {
		buf := make([]byte, 20000)
		for pos < length && !w.stopped {
			k, err := r.Read(buf)
			if k > 0 {
				if !bytes.Equal(buf[:k], model[pos:pos+int64(k)]) {
					rc.Fail("C02", "content", "", "tail reader: wrong bytes at position %d", pos)
					return
				}
				pos += int64(k)
				rc.Progress()
			}
			if err != nil {
				break
			}
			if k == 0 {
				simrt.Sleep(50 * time.Millisecond)
			}
		}
		done = pos >= length
	})
	// the commands for the tail reach a congested peer; then the seed reads again
	simrt.Sleep(time.Duration(1+st.Choice(20)) * time.Second)
	slow.Cfg.StopRead = false
	slow.wake.Wake()
	rc.Tracef("the slow seed reads again")
	bound := time.Duration(tail+1) * 300 * time.Second
	deadline := time.Now().Add(bound)
	for !done && time.Now().Before(deadline) && !rc.Failed() {
		simrt.Sleep(time.Second)
		if slow.Closed || slow.conn == nil {
			// the precondition: the honest seed is connected
			simrt.Probe("seed-reconnects")
			slow.Connect()
			deadline = time.Now().Add(bound)
		} else if slow.Ready && slow.ChokingSys && (!slow.Cfg.ChokeUninterested || slow.SysInterested) {
			slow.Unchoke()
		}
	}
	if !done && !rc.Failed() {
		var ps []string
		for _, p := range t.SimPeers() {
			q, o := p.SimRequests()
			ps = append(ps, fmt.Sprintf("{unchoked=%v queued=%v outstanding=%v}", p.SimUnchoked(), q, o))
		}
		rc.Fail("C02", "liveness", "stalled-after-write-congestion", "the reader on the last %d pieces is stuck at position %d of %d, %v after the seed that holds them resumed reading; it is connected, honest and unchoking; peers: %v", tail, pos, length, bound, ps)
	}
}
