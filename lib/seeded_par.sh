#!/bin/bash
# Run seeded changes in parallel, each against its own scratch worktree of
# /repo (patch applied there, /repo itself untouched) and its own snapshot of
# /verif at HEAD (so that edits in /verif do not disturb the batch).
#
#   lib/seeded_par.sh [-j jobs] [-w workers] [-s secs] [-first] <id>...
#
# -first records the outcome as meta.json "first_run" as well (what the
# machinery said before anything was adjusted for the change).
set -u
VERIF="$(cd "$(dirname "${BASH_SOURCE[0]}")/.." && pwd)"
REPO=/repo
jobs=4; workers=4; secs=60; first=0
while [ $# -gt 0 ]; do
	case "$1" in
	-j) jobs=$2; shift 2 ;;
	-w) workers=$2; shift 2 ;;
	-s) secs=$2; shift 2 ;;
	-first) first=1; shift ;;
	*) break ;;
	esac
done

one() {
	id=$1
	d="$VERIF/seeded/$id"
	prop=$(python3 -c "import json;print(json.load(open('$d/meta.json'))['property'])")
	rw=$(mktemp -d /tmp/sp-repo.XXXXXX); vw=$(mktemp -d /tmp/sp-verif.XXXXXX)
	git -C $REPO worktree add -q --detach "$rw" HEAD || { echo "$id: worktree failed"; return 2; }
	git -C "$VERIF" worktree add -q --detach "$vw" HEAD || { echo "$id: verif worktree failed"; return 2; }
	cleanup() {
		git -C $REPO worktree remove --force "$rw" >/dev/null 2>&1; rm -rf "$rw"
		git -C "$VERIF" worktree remove --force "$vw" >/dev/null 2>&1; rm -rf "$vw"
	}
	( cd "$rw" && git apply "$d/patch.diff" ) || { echo "$id: patch does not apply"; cleanup; return 2; }
	mkdir -p "$vw/.bin"; cp "$VERIF/.bin/simrewrite" "$vw/.bin/" 2>/dev/null
	t0=$(date +%s)
	out=$(cd "$vw" && VERIF_REPO="$rw" VERIF_WORKERS=$workers VERIF_BUDGET=$secs ./check "$prop" quick 2>&1)
	code=$?
	t1=$(date +%s)
	viol=$(echo "$out" | grep '^violation:' | head -1 | cut -c1-400)
	head=$(git -C "$VERIF" rev-parse --short HEAD)
	python3 - "$d/meta.json" "$code" "$viol" "VERIF_BUDGET=$secs VERIF_WORKERS=$workers ./check $prop quick (scratch tree at /repo HEAD + patch, /verif $head) -> exit $code in $((t1-t0)) s" "$first" <<'EOF'
import json,sys
f,code,viol,run,first=sys.argv[1:6]
m=json.load(open(f))
caught = code=="1"
if code in ("0","1"):
    m["caught"]=caught; m["check_run"]=run; m["check_says"]=viol
    if first=="1" and "first_run" not in m:
        m["first_run"]={"exit":int(code),"caught":caught,"says":viol,"harness":run}
else:
    m["check_run"]=run+" (harness trouble)"
json.dump(m,open(f,"w"),indent=1)
EOF
	echo "$id: exit=$code $(echo "$viol" | cut -c1-220)"
	[ $code = 2 ] && echo "$out" | tail -5
	cleanup
}
export -f one
export VERIF REPO workers secs first
printf '%s\n' "$@" | xargs -P "$jobs" -I{} bash -c 'one {}'
