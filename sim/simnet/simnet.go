// Package simnet is the simulated network: stream connections with
// controllable segmentation, delay, back-pressure and failures, and
// datagram sockets with loss, duplication, reordering and delay.  Every
// decision comes from the run's choice stream; every blocking operation
// parks the caller in the simulator's scheduler.
package simnet

import (
	"errors"
	"io"
	"net"
	"os"
	"syscall"
	"time"

	"github.com/jech/storrent/zzsim/simrt"
)

// Segmentation policies of one direction of a stream.
const (
	SegWhole    = iota // every Write is delivered as one segment
	SegCoalesce        // writes issued close together arrive glued together
	SegRandom          // every Write is cut at random points
	SegBytes           // one byte at a time
	SegCutAt           // the whole direction is cut exactly once, at offset CutAt
	SegSmall           // random segments of 1..7 bytes
)

type LinkCfg struct {
	Seg     int
	CutAt   int           // for SegCutAt
	Latency time.Duration // base one-way delay
	Jitter  time.Duration // extra random delay per segment (order is preserved)
	Window  int           // bytes in flight + unread before the writer blocks (0: 256 KiB)

	// faults
	FailWriteAfter int   // >0: the Write that would pass this many bytes is cut short and fails
	ResetAfterRead int   // >0: after the reader consumed this many bytes the connection is reset
	EOFAfter       int   // >0: after this many bytes have been delivered the direction is closed
	StallAfter     int   // >0: after this many bytes nothing more is delivered (until Unstall)
	// EOFWithData: the Read that takes the last byte of a direction whose
	// FIN has already arrived returns the data together with io.EOF, as
	// io.Reader allows (and as readers stacked on a connection do)
	EOFWithData bool
}

// DrawLink draws a link configuration; 0 choices give whole-write delivery
// with no delay and no fault.
func DrawLink(st *simrt.Stream) LinkCfg {
	var c LinkCfg
	c.Seg = st.Weighted(4, 2, 3, 2, 0, 2)
	c.Latency = time.Duration(simrt.Pick(st, 0, 1, 20, 200)) * time.Millisecond
	if st.Bool(1, 3) {
		c.Jitter = time.Duration(1+st.Choice(50)) * time.Millisecond
	}
	return c
}

type segment struct {
	data []byte
	fin  bool
	rst  bool
}

// half is one direction of a stream: bytes written by one end, read by the other.
type half struct {
	cfg       LinkCfg
	buf       []byte // delivered, not yet read
	inflight  int    // bytes scheduled for delivery
	ctl       int    // FIN/RST segments scheduled for delivery
	lastAt    time.Time
	written   int // bytes accepted from the writer
	delivered int
	consumed  int
	fin       bool // no more data will come (after buf is drained: EOF)
	rst       bool
	stalled   bool
	held      []segment
	rq        simrt.WaitQ // readers
	wq        simrt.WaitQ // writers waiting for window
	Tap       func(p []byte)
	coalesceAt time.Time
}

func (h *half) window() int {
	if h.cfg.Window > 0 {
		return h.cfg.Window
	}
	return 256 << 10
}

// Conn is one end of a simulated stream connection.
type Conn struct {
	in, out       *half
	local, remote net.Addr
	closed        bool
	rdl, wdl      time.Time
	Name          string
	peer          *Conn
	OnClose       func()
}

var _ net.Conn = (*Conn)(nil)

// Pipe creates a connected pair.  ab configures the a->b direction.
func Pipe(a, b net.Addr, ab, ba LinkCfg) (*Conn, *Conn) {
	h1 := &half{cfg: ab}
	h2 := &half{cfg: ba}
	ca := &Conn{in: h2, out: h1, local: a, remote: b}
	cb := &Conn{in: h1, out: h2, local: b, remote: a}
	ca.peer, cb.peer = cb, ca
	return ca, cb
}

func (c *Conn) LocalAddr() net.Addr  { return c.local }
func (c *Conn) RemoteAddr() net.Addr { return c.remote }

// PeerPending reports bytes this end wrote that the other end has not read yet.
func (c *Conn) PeerPending() int { return len(c.out.buf) + c.out.inflight + c.out.ctl }

// SetOutLink changes the configuration of the direction this end writes.
func (c *Conn) SetOutLink(cfg LinkCfg) { c.out.cfg = cfg }

// TapOut installs a wire tap on the bytes this end writes (as accepted).
func (c *Conn) TapOut(f func(p []byte)) { c.out.Tap = f }

// BytesWritten is the number of bytes this end has written.
func (c *Conn) BytesWritten() int { return c.out.written }

// BytesConsumed is the number of bytes this end has read.
func (c *Conn) BytesConsumed() int { return c.in.consumed }

// Pending reports bytes written to this end's input that were not read yet
// (delivered or in flight).
func (c *Conn) Pending() int { return len(c.in.buf) + c.in.inflight + c.in.ctl }

type timeoutError struct{}

func (timeoutError) Error() string   { return "i/o timeout" }
func (timeoutError) Timeout() bool   { return true }
func (timeoutError) Temporary() bool { return true }
func (timeoutError) Is(err error) bool {
	return err == os.ErrDeadlineExceeded
}

var errTimeout error = &net.OpError{Op: "read", Net: "tcp", Err: timeoutError{}}
var errReset error = &net.OpError{Op: "read", Net: "tcp", Err: syscall.ECONNRESET}
var errPipe error = &net.OpError{Op: "write", Net: "tcp", Err: syscall.EPIPE}

func (c *Conn) Read(p []byte) (int, error) {
	simrt.Y(-1)
	h := c.in
	for {
		if c.closed {
			return 0, net.ErrClosed
		}
		if h.rst {
			return 0, errReset
		}
		if len(h.buf) > 0 {
			if len(p) == 0 {
				return 0, nil
			}
			n := copy(p, h.buf)
			h.buf = h.buf[n:]
			h.consumed += n
			if len(h.buf) == 0 {
				h.buf = nil
			}
			if w := h.window(); len(h.buf)+h.inflight <= w/2 || len(h.buf) == 0 {
				h.wq.Wake()
			}
			if h.cfg.ResetAfterRead > 0 && h.consumed >= h.cfg.ResetAfterRead && !h.rst {
				simrt.Fault("net-reset")
				h.rst = true
				c.out.rst = true
				c.out.rq.Wake()
				c.out.wq.Wake()
			}
			if h.cfg.EOFWithData && len(h.buf) == 0 && h.fin && !h.rst {
				simrt.Fault("net-eof-with-data")
				return n, io.EOF
			}
			return n, nil
		}
		if h.fin {
			return 0, io.EOF
		}
		var to time.Duration
		if !c.rdl.IsZero() {
			to = time.Until(c.rdl)
			if to <= 0 {
				simrt.Fault("net-read-deadline")
				return 0, errTimeout
			}
		}
		h.rq.Wait(to)
	}
}

func (c *Conn) Write(p []byte) (int, error) {
	simrt.Y(-1)
	h := c.out
	total := 0
	for len(p) > 0 {
		if c.closed {
			return total, net.ErrClosed
		}
		if h.rst || c.in.rst {
			return total, errPipe
		}
		if h.fin {
			return total, errPipe
		}
		room := h.window() - (len(h.buf) + h.inflight)
		if room <= 0 {
			var to time.Duration
			if !c.wdl.IsZero() {
				to = time.Until(c.wdl)
				if to <= 0 {
					return total, errTimeout
				}
			}
			simrt.Probe("net-write-blocked")
			h.wq.Wait(to)
			continue
		}
		n := len(p)
		if n > room {
			n = room
		}
		if f := h.cfg.FailWriteAfter; f > 0 && h.written+n >= f {
			n = f - h.written
			if n < 0 {
				n = 0
			}
			simrt.Fault("net-write-error")
			if n > 0 {
				c.send(p[:n])
			}
			h.rst = true
			h.rq.Wake()
			return total + n, errPipe
		}
		c.send(p[:n])
		total += n
		p = p[n:]
	}
	return total, nil
}

// send cuts one accepted chunk into segments and schedules their delivery.
func (c *Conn) send(p []byte) {
	h := c.out
	s := simrt.Cur()
	st := s.St
	if h.Tap != nil {
		h.Tap(p)
	}
	data := append([]byte(nil), p...)
	start := h.written
	h.written += len(data)
	var cuts []int // cut positions inside data
	switch h.cfg.Seg {
	case SegRandom:
		for k := st.Choice(4); k > 0 && len(data) > 1; k-- {
			cuts = append(cuts, 1+st.Choice(len(data)-1))
		}
	case SegBytes:
		for i := 1; i < len(data); i++ {
			cuts = append(cuts, i)
		}
	case SegSmall:
		for i := 0; i < len(data); {
			i += 1 + st.Choice(7)
			if i < len(data) {
				cuts = append(cuts, i)
			}
		}
	case SegCutAt:
		if k := h.cfg.CutAt - start; k > 0 && k < len(data) {
			cuts = append(cuts, k)
		}
	}
	sortInts(cuts)
	prev := 0
	emit := func(lo, hi int) {
		if hi <= lo {
			return
		}
		c.schedule(segment{data: data[lo:hi]}, hi-lo)
	}
	for _, k := range cuts {
		if k <= prev {
			continue
		}
		emit(prev, k)
		prev = k
	}
	emit(prev, len(data))
}

func sortInts(a []int) {
	for i := 1; i < len(a); i++ {
		for j := i; j > 0 && a[j] < a[j-1]; j-- {
			a[j], a[j-1] = a[j-1], a[j]
		}
	}
}

func (c *Conn) schedule(sg segment, n int) {
	h := c.out
	s := simrt.Cur()
	now := time.Now()
	at := now.Add(h.cfg.Latency)
	switch h.cfg.Seg {
	case SegCoalesce:
		// everything written within the same 5 ms window arrives together
		if h.coalesceAt.After(now) {
			at = h.coalesceAt.Add(h.cfg.Latency)
		} else {
			h.coalesceAt = now.Add(5 * time.Millisecond)
			at = h.coalesceAt.Add(h.cfg.Latency)
		}
	case SegBytes, SegSmall, SegRandom, SegCutAt:
		// distinct instants, so that the reader can run between segments
		at = at.Add(time.Microsecond)
	}
	if h.cfg.Jitter > 0 {
		at = at.Add(time.Duration(s.St.Choice(int(h.cfg.Jitter/time.Microsecond)+1)) * time.Microsecond)
	}
	if !at.After(h.lastAt) {
		if h.cfg.Seg == SegCoalesce || h.cfg.Seg == SegWhole {
			at = h.lastAt
		} else {
			at = h.lastAt.Add(time.Microsecond)
		}
	}
	h.lastAt = at
	h.inflight += n
	if sg.fin || sg.rst {
		h.ctl++
	}
	s.After(at.Sub(now), func() { c.deliver(sg, n) })
}

func (c *Conn) deliver(sg segment, n int) {
	h := c.out
	h.inflight -= n
	if sg.fin || sg.rst {
		h.ctl--
	}
	if h.stalled {
		h.held = append(h.held, sg)
		h.inflight += n
		return
	}
	if sg.rst {
		h.rst = true
		h.rq.Wake()
		h.wq.Wake()
		return
	}
	if sg.fin {
		h.fin = true
		h.rq.Wake()
		return
	}
	if h.rst || h.fin {
		return
	}
	d := sg.data
	if e := h.cfg.EOFAfter; e > 0 && h.delivered+len(d) >= e {
		d = d[:e-h.delivered]
		simrt.Fault("net-eof")
		h.buf = append(h.buf, d...)
		h.delivered += len(d)
		h.fin = true
		h.rq.Wake()
		return
	}
	if st := h.cfg.StallAfter; st > 0 && h.delivered+len(d) >= st && !h.stalled {
		k := st - h.delivered
		h.buf = append(h.buf, d[:k]...)
		h.delivered += k
		simrt.Fault("net-stall")
		h.stalled = true
		if k < len(d) {
			h.held = append(h.held, segment{data: d[k:]})
			h.inflight += len(d) - k
		}
		h.rq.Wake()
		return
	}
	h.buf = append(h.buf, d...)
	h.delivered += len(d)
	h.rq.Wake()
}

// Stall holds back everything this end writes from now on (it stays in
// flight) until Unstall.
func (c *Conn) Stall() { c.out.stalled = true }

// Unstall releases a stalled direction (the one this end writes).
func (c *Conn) Unstall() {
	h := c.out
	if !h.stalled {
		return
	}
	h.stalled = false
	h.cfg.StallAfter = 0
	held := h.held
	h.held = nil
	for _, sg := range held {
		n := len(sg.data)
		c.deliver(sg, n)
	}
}

// Close closes this end: local operations fail, the peer reads EOF after
// the data already written.
func (c *Conn) Close() error {
	if c.closed {
		return net.ErrClosed
	}
	c.closed = true
	c.in.rq.Wake()
	c.out.wq.Wake()
	// the peer's writes now fail
	c.in.fin = true
	c.in.wq.Wake()
	if s := simrt.Cur(); s != nil && simrt.Active() {
		c.schedule(segment{fin: true}, 0)
	} else {
		c.out.fin = true
	}
	if c.OnClose != nil {
		c.OnClose()
	}
	return nil
}

// Reset aborts the connection in both directions at once.
func (c *Conn) Reset() {
	simrt.Fault("net-reset")
	c.in.rst, c.out.rst = true, true
	c.in.rq.Wake()
	c.in.wq.Wake()
	c.out.rq.Wake()
	c.out.wq.Wake()
}

// CloseWrite half-closes: the peer reads EOF, this end can still read.
func (c *Conn) CloseWrite() error {
	c.schedule(segment{fin: true}, 0)
	return nil
}

// PeerClosed reports whether the other end was closed locally.
func (c *Conn) PeerClosed() bool { return c.peer.closed }

// Closed reports whether this end was closed locally.
func (c *Conn) Closed() bool { return c.closed }

// PeerGone reports whether the other end closed or the connection was reset.
func (c *Conn) PeerGone() bool { return c.in.fin || c.in.rst || c.peer.closed }

func (c *Conn) SetDeadline(t time.Time) error {
	c.rdl, c.wdl = t, t
	c.in.rq.Wake()
	c.out.wq.Wake()
	return nil
}

func (c *Conn) SetReadDeadline(t time.Time) error {
	c.rdl = t
	c.in.rq.Wake()
	return nil
}

func (c *Conn) SetWriteDeadline(t time.Time) error {
	c.wdl = t
	c.out.wq.Wake()
	return nil
}

var ErrRefused = &net.OpError{Op: "dial", Net: "tcp", Err: syscall.ECONNREFUSED}
var ErrUnreachable = &net.OpError{Op: "dial", Net: "tcp", Err: errors.New("network is unreachable")}

func TCPAddr(ip string, port int) *net.TCPAddr {
	return &net.TCPAddr{IP: net.ParseIP(ip), Port: port}
}
