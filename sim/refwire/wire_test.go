package refwire

import (
	"bytes"
	"encoding/binary"
	"encoding/hex"
	"errors"
	"math/rand"
	"net"
	"reflect"
	"strings"
	"testing"
)

func unhex(t testing.TB, s string) []byte {
	t.Helper()
	b, err := hex.DecodeString(strings.ReplaceAll(s, " ", ""))
	if err != nil {
		t.Fatal(err)
	}
	return b
}

// goldenFrames are byte vectors that follow directly from the layouts in
// BEP 3, 5, 6 and 10.
var goldenFrames = []struct {
	m   Message
	hex string
}{
	{KeepAlive{}, "00000000"},
	{Choke{}, "00000001 00"},
	{Unchoke{}, "00000001 01"},
	{Interested{}, "00000001 02"},
	{NotInterested{}, "00000001 03"},
	{Have{1}, "00000005 04 00000001"},
	{Have{0xdeadbeef}, "00000005 04 deadbeef"},
	{Bitfield{[]byte{0xff, 0x80}}, "00000003 05 ff80"},
	{Bitfield{[]byte{}}, "00000001 05"},
	{Request{1, 16384, 16384}, "0000000d 06 00000001 00004000 00004000"},
	{Piece{2, 32768, []byte{0xaa, 0xbb, 0xcc}}, "0000000c 07 00000002 00008000 aabbcc"},
	{Piece{0, 0, []byte{}}, "00000009 07 00000000 00000000"},
	{Cancel{1, 16384, 16384}, "0000000d 08 00000001 00004000 00004000"},
	{Port{6881}, "00000003 09 1ae1"},
	{SuggestPiece{7}, "00000005 0d 00000007"},
	{HaveAll{}, "00000001 0e"},
	{HaveNone{}, "00000001 0f"},
	{RejectRequest{1, 2, 3}, "0000000d 10 00000001 00000002 00000003"},
	{AllowedFast{9}, "00000005 11 00000009"},
	{Extended{0, []byte("de")}, "00000004 14 00 6465"},
	{Extended{3, []byte{}}, "00000002 14 03"},
	{Unknown{99, []byte{1, 2}}, "00000003 63 0102"},
	{Unknown{10, []byte{}}, "00000001 0a"},
}

func TestGoldenFrames(t *testing.T) {
	for _, g := range goldenFrames {
		want := unhex(t, g.hex)
		if got := Encode(g.m); !bytes.Equal(got, want) {
			t.Errorf("Encode(%#v) = %x, want %x", g.m, got, want)
		}
		m, err := DecodeFrame(want)
		if err != nil {
			t.Errorf("DecodeFrame(%x): %v", want, err)
			continue
		}
		if !reflect.DeepEqual(m, g.m) {
			t.Errorf("DecodeFrame(%x) = %#v, want %#v", want, m, g.m)
		}
	}
}

func randMessage(r *rand.Rand) Message {
	blob := func(max int) []byte {
		b := make([]byte, r.Intn(max))
		r.Read(b)
		return b
	}
	switch r.Intn(18) {
	case 0:
		return KeepAlive{}
	case 1:
		return Choke{}
	case 2:
		return Unchoke{}
	case 3:
		return Interested{}
	case 4:
		return NotInterested{}
	case 5:
		return Have{r.Uint32()}
	case 6:
		return Bitfield{blob(64)}
	case 7:
		return Request{r.Uint32(), r.Uint32(), r.Uint32()}
	case 8:
		return Piece{r.Uint32(), r.Uint32(), blob(300)}
	case 9:
		return Cancel{r.Uint32(), r.Uint32(), r.Uint32()}
	case 10:
		return Port{uint16(r.Uint32())}
	case 11:
		return SuggestPiece{r.Uint32()}
	case 12:
		return HaveAll{}
	case 13:
		return HaveNone{}
	case 14:
		return RejectRequest{r.Uint32(), r.Uint32(), r.Uint32()}
	case 15:
		return AllowedFast{r.Uint32()}
	case 16:
		return Extended{uint8(r.Uint32()), blob(100)}
	default:
		// An id that is not assigned.
		ids := []uint8{10, 11, 12, 18, 19, 21, 22, 23, 100, 255}
		return Unknown{ids[r.Intn(len(ids))], blob(30)}
	}
}

func TestRoundTripRandom(t *testing.T) {
	r := rand.New(rand.NewSource(3))
	for i := 0; i < 20000; i++ {
		m := randMessage(r)
		f := Encode(m)
		if int(binary.BigEndian.Uint32(f)) != len(f)-4 {
			t.Fatalf("%#v: bad length prefix in %x", m, f)
		}
		got, err := DecodeFrame(f)
		if err != nil {
			t.Fatalf("%#v: %v", m, err)
		}
		if !reflect.DeepEqual(got, m) {
			t.Fatalf("round trip: got %#v want %#v", got, m)
		}
	}
}

func TestDecodeFrameStrictLengths(t *testing.T) {
	bad := []string{
		"",                                       // no prefix
		"000000",                                 // short prefix
		"00000001",                               // declared 1, have 0
		"00000000 00",                            // declared 0, have 1
		"00000002 00 00",                         // choke with payload
		"00000002 01 00",                         // unchoke with payload
		"00000002 02 00",                         // interested with payload
		"00000002 03 00",                         // not interested with payload
		"00000006 04 0000000100",                 // have, length 6
		"00000004 04 000000",                     // have, length 4
		"00000001 04",                            // have, length 1
		"0000000c 06 0000000100004000000040",     // request, length 12
		"0000000e 06 000000010000400000004000ff", // request, length 14
		"0000000c 08 0000000100004000000040",     // cancel, length 12
		"00000008 07 00000001000000",             // piece, length 8
		"00000001 07",                            // piece, length 1
		"00000002 09 1a",                         // port, length 2
		"00000004 09 1ae100",                     // port, length 4
		"00000004 0d 000000",                     // suggest, length 4
		"00000002 0e 00",                         // have all with payload
		"00000002 0f 00",                         // have none with payload
		"0000000e 10 000000010000000200000003ff", // reject, length 14
		"00000006 11 0000000900",                 // allowed fast, length 6
		"00000001 14",                            // extended without sub-id
		"00000005 04 00000001 00",                // trailing byte after frame
		"ffffffff 04",                            // absurd length
	}
	for _, h := range bad {
		f := unhex(t, h)
		if m, err := DecodeFrame(f); err == nil {
			t.Errorf("DecodeFrame(%x) = %#v, want error", f, m)
		}
	}
	_, err := DecodeFrame(unhex(t, "00000006 04 0000000100"))
	var fe *FrameError
	if !errors.As(err, &fe) || fe.ID != IDHave || fe.Len != 6 || !errors.Is(err, ErrBadLength) {
		t.Errorf("unexpected error %#v", err)
	}
}

func TestDecodeFrameDoesNotAlias(t *testing.T) {
	f := Encode(Piece{1, 2, []byte{1, 2, 3}})
	m, err := DecodeFrame(f)
	if err != nil {
		t.Fatal(err)
	}
	f[len(f)-1] = 0xff
	if !bytes.Equal(m.(Piece).Data, []byte{1, 2, 3}) {
		t.Error("Piece.Data aliases the frame")
	}
}

// TestDecodeTotal: no panic on 100k random frames, both well-delimited (so
// that the per-id code is reached) and entirely random, for the frame decoder
// and for every typed payload decoder.
func TestDecodeTotal(t *testing.T) {
	r := rand.New(rand.NewSource(4))
	ids := []uint8{0, 1, 2, 3, 4, 5, 6, 7, 8, 9, 13, 14, 15, 16, 17, 20, 21, 255}
	for i := 0; i < 100000; i++ {
		var f []byte
		switch r.Intn(3) {
		case 0: // completely random
			f = make([]byte, r.Intn(40))
			r.Read(f)
		case 1: // correct prefix, random body with a plausible id
			n := r.Intn(20)
			f = make([]byte, 4+n)
			r.Read(f[4:])
			binary.BigEndian.PutUint32(f, uint32(n))
			if n > 0 {
				f[4] = ids[r.Intn(len(ids))]
			}
		case 2: // valid frame with a mutation
			f = Encode(randMessage(r))
			switch r.Intn(3) {
			case 0:
				f[r.Intn(len(f))] ^= byte(1 << r.Intn(8))
			case 1:
				f = f[:r.Intn(len(f)+1)]
			case 2:
				f = append(f, byte(r.Uint32()))
			}
		}
		m, err := DecodeFrame(f)
		if err == nil {
			// Whatever decodes must re-encode to the same bytes.
			if !bytes.Equal(Encode(m), f) {
				t.Fatalf("DecodeFrame(%x) = %#v does not re-encode", f, m)
			}
		}
		for _, strict := range []bool{true, false} {
			DecodeExtHandshake(f, strict)
			DecodeMetadata(f, strict)
			DecodePex(f, strict)
			DecodeUploadOnly(f, strict)
		}
		DecodeDontHave(f)
		ParseHandshake(f)
		SplitFrames(f)
	}
}

// TestExtDecodersTotal mutates valid extension payloads.
func TestExtDecodersTotal(t *testing.T) {
	r := rand.New(rand.NewSource(5))
	seeds := [][]byte{
		EncodeExtHandshake(sampleExtHandshake()),
		EncodeMetadata(MetadataMsg{Type: 1, Piece: 3, TotalSize: 40000, HasTotalSize: true, Data: []byte("xyz")}),
		EncodePex(samplePex()),
		[]byte("d1:md11:ut_metadatai1e6:ut_pex3:abce1:pi-1e4:ipv43:abc6:yourip0:e"),
		[]byte("d5:added7:aaaaaaa7:added.f0:6:added6i1e7:droppedlee"),
		[]byte("d8:msg_type1:a5:piecelee"),
	}
	const alphabet = "ilde0123456789:-"
	for i := 0; i < 50000; i++ {
		b := clone(seeds[r.Intn(len(seeds))])
		for n := r.Intn(4); n > 0 && len(b) > 0; n-- {
			switch r.Intn(3) {
			case 0:
				b[r.Intn(len(b))] = alphabet[r.Intn(len(alphabet))]
			case 1:
				b = b[:r.Intn(len(b)+1)]
			case 2:
				b[r.Intn(len(b))] = byte(r.Uint32())
			}
		}
		for _, strict := range []bool{true, false} {
			DecodeExtHandshake(b, strict)
			DecodeMetadata(b, strict)
			DecodePex(b, strict)
		}
	}
}

func TestSplitFrames(t *testing.T) {
	msgs := []Message{Have{1}, KeepAlive{}, Piece{1, 2, []byte("hello")}, Choke{}}
	var stream []byte
	for _, m := range msgs {
		stream = append(stream, Encode(m)...)
	}
	tail := []byte{0, 0, 0, 5, 4, 0} // incomplete Have
	frames, rest := SplitFrames(append(clone(stream), tail...))
	if len(frames) != len(msgs) {
		t.Fatalf("got %d frames", len(frames))
	}
	for i, f := range frames {
		m, err := DecodeFrame(f)
		if err != nil || !reflect.DeepEqual(m, msgs[i]) {
			t.Errorf("frame %d: %#v %v", i, m, err)
		}
	}
	if !bytes.Equal(rest, tail) {
		t.Errorf("rest = %x", rest)
	}
	// Every prefix: the frames plus the rest always reassemble the input.
	for cut := 0; cut <= len(stream); cut++ {
		frames, rest := SplitFrames(stream[:cut])
		var re []byte
		for _, f := range frames {
			re = append(re, f...)
		}
		re = append(re, rest...)
		if !bytes.Equal(re, stream[:cut]) {
			t.Fatalf("cut %d: does not reassemble", cut)
		}
	}
	if frames, rest := SplitFrames(nil); frames != nil || len(rest) != 0 {
		t.Error("SplitFrames(nil)")
	}
	huge := []byte{0xff, 0xff, 0xff, 0xff, 1, 2, 3}
	if frames, rest := SplitFrames(huge); len(frames) != 0 || !bytes.Equal(rest, huge) {
		t.Error("SplitFrames(huge)")
	}
}

func TestStreamDecoderByteAtATime(t *testing.T) {
	r := rand.New(rand.NewSource(6))
	var msgs []Message
	var stream []byte
	for i := 0; i < 500; i++ {
		m := randMessage(r)
		msgs = append(msgs, m)
		stream = append(stream, Encode(m)...)
	}
	feed := func(name string, cut func() int) {
		var d StreamDecoder
		var got []Message
		for off := 0; off < len(stream); {
			n := cut()
			if off+n > len(stream) {
				n = len(stream) - off
			}
			d.Write(stream[off : off+n])
			off += n
			for {
				m, ok, err := d.Next()
				if err != nil {
					t.Fatalf("%s: %v", name, err)
				}
				if !ok {
					break
				}
				got = append(got, m)
			}
		}
		if d.Buffered() != 0 {
			t.Errorf("%s: %d bytes left over", name, d.Buffered())
		}
		if !reflect.DeepEqual(got, msgs) {
			t.Errorf("%s: decoded stream differs", name)
		}
	}
	feed("byte-at-a-time", func() int { return 1 })
	feed("random cuts", func() int { return 1 + r.Intn(50) })
	feed("all at once", func() int { return len(stream) })
}

func TestStreamDecoderErrors(t *testing.T) {
	var d StreamDecoder
	d.Write(unhex(t, "00000006 04 0000000100")) // bad Have
	d.Write(Encode(Have{7}))
	if m, ok, err := d.Next(); err == nil || ok || m != nil {
		t.Fatalf("bad frame: %v %v %v", m, ok, err)
	}
	// The bad frame was skipped; the stream continues.
	if m, ok, err := d.Next(); err != nil || !ok || m != (Have{7}) {
		t.Fatalf("after bad frame: %v %v %v", m, ok, err)
	}
	if m, ok, err := d.Next(); err != nil || ok || m != nil {
		t.Fatalf("empty: %v %v %v", m, ok, err)
	}

	d = StreamDecoder{MaxLen: 100}
	d.Write([]byte{0, 0, 0, 101})
	if _, _, err := d.Next(); !errors.Is(err, ErrFrameTooLarge) {
		t.Fatalf("want ErrFrameTooLarge, got %v", err)
	}
	d.Write(Encode(Choke{}))
	if _, _, err := d.Next(); !errors.Is(err, ErrFrameTooLarge) {
		t.Fatalf("ErrFrameTooLarge is not sticky: %v", err)
	}
}

// ---------------------------------------------------------------------------
// Handshake.

func TestHandshakeGolden(t *testing.T) {
	var h Handshake
	for i := range h.InfoHash {
		h.InfoHash[i] = byte(0xA0 + i)
		h.PeerID[i] = byte(0x30 + i)
	}
	h.SetExtended(true)
	h.SetDHT(true)
	h.SetFast(true)
	want := unhex(t,
		"13 426974546f7272656e742070726f746f636f6c"+ // \x13 "BitTorrent protocol"
			"0000000000100005"+ // reserved: ext = [5]&0x10, fast|dht = [7]&(0x04|0x01)
			"a0a1a2a3a4a5a6a7a8a9aaabacadaeafb0b1b2b3"+
			"303132333435363738393a3b3c3d3e3f40414243")
	got := h.Bytes()
	if len(got) != 68 || HandshakeLen != 68 {
		t.Fatalf("length %d", len(got))
	}
	if !bytes.Equal(got, want) {
		t.Fatalf("got  %x\nwant %x", got, want)
	}
	if string(got[1:20]) != "BitTorrent protocol" {
		t.Fatal("protocol string")
	}
	p, err := ParseHandshake(got)
	if err != nil || p != h {
		t.Fatalf("parse: %v %v", p, err)
	}
	if !p.Extended() || !p.DHT() || !p.Fast() {
		t.Error("bits not seen")
	}
	h.SetFast(false)
	if h.Reserved != [8]byte{0, 0, 0, 0, 0, 0x10, 0, 0x01} || h.Fast() || !h.DHT() || !h.Extended() {
		t.Errorf("after SetFast(false): %x", h.Reserved)
	}
	h.SetDHT(false)
	h.SetExtended(false)
	if h.Reserved != [8]byte{} || h.DHT() || h.Extended() {
		t.Errorf("after clearing: %x", h.Reserved)
	}
	// Other bits are preserved by the setters.
	h.Reserved = [8]byte{0xff, 0xff, 0xff, 0xff, 0xff, 0xff, 0xff, 0xff}
	h.SetExtended(false)
	h.SetDHT(false)
	h.SetFast(false)
	if h.Reserved != [8]byte{0xff, 0xff, 0xff, 0xff, 0xff, 0xef, 0xff, 0xfa} {
		t.Errorf("setters clobber other bits: %x", h.Reserved)
	}
}

func TestParseHandshakeErrors(t *testing.T) {
	good := Handshake{}.Bytes()
	if _, err := ParseHandshake(good[:67]); !errors.Is(err, ErrHandshakeLength) {
		t.Errorf("67 bytes: %v", err)
	}
	if _, err := ParseHandshake(append(clone(good), 0)); !errors.Is(err, ErrHandshakeLength) {
		t.Errorf("69 bytes: %v", err)
	}
	b := clone(good)
	b[0] = 18
	if _, err := ParseHandshake(b); !errors.Is(err, ErrHandshakeProtocol) {
		t.Errorf("pstrlen 18: %v", err)
	}
	b = clone(good)
	b[5] ^= 0x20
	if _, err := ParseHandshake(b); !errors.Is(err, ErrHandshakeProtocol) {
		t.Errorf("bad pstr: %v", err)
	}
}

// ---------------------------------------------------------------------------
// Extension payloads.

func sampleExtHandshake() ExtHandshake {
	return ExtHandshake{
		M: map[string]int64{
			ExtNameMetadata: 2, ExtNamePex: 1, ExtNameDontHave: 7, ExtNameUploadOnly: 3,
		},
		V:               "refwire 1.0",
		P:               6881,
		HasP:            true,
		Reqq:            250,
		HasReqq:         true,
		MetadataSize:    31235,
		HasMetadataSize: true,
		IPv4:            []byte{10, 0, 0, 1},
		IPv6:            net.ParseIP("2001:db8::1").To16(),
		YourIP:          []byte{192, 0, 2, 7},
		UploadOnly:      1,
		E:               1,
		Other:           map[string]any{"complete_ago": int64(-1)},
	}
}

func TestExtHandshakeGolden(t *testing.T) {
	h := ExtHandshake{
		M:               map[string]int64{"ut_pex": 1, "ut_metadata": 2},
		V:               "x",
		P:               6881,
		HasP:            true,
		MetadataSize:    100,
		HasMetadataSize: true,
		Reqq:            0,
		HasReqq:         true,
	}
	want := "d1:md11:ut_metadatai2e6:ut_pexi1ee13:metadata_sizei100e1:pi6881e4:reqqi0e1:v1:xe"
	if got := string(EncodeExtHandshake(h)); got != want {
		t.Errorf("got  %s\nwant %s", got, want)
	}
	if got := string(EncodeExtHandshake(ExtHandshake{})); got != "de" {
		t.Errorf("empty handshake = %q", got)
	}
	// As a complete frame: <len><20><0><dict>.
	f := Encode(Extended{0, EncodeExtHandshake(ExtHandshake{})})
	if !bytes.Equal(f, unhex(t, "00000004 14 00 6465")) {
		t.Errorf("frame %x", f)
	}
}

func TestExtHandshakeRoundTrip(t *testing.T) {
	h := sampleExtHandshake()
	enc := EncodeExtHandshake(h)
	for _, strict := range []bool{true, false} {
		got, err := DecodeExtHandshake(enc, strict)
		if err != nil {
			t.Fatalf("strict=%v: %v", strict, err)
		}
		want := h
		want.HasV, want.HasUploadOnly, want.HasE = true, true, true
		if !reflect.DeepEqual(got, want) {
			t.Errorf("strict=%v:\ngot  %#v\nwant %#v", strict, got, want)
		}
		if !bytes.Equal(EncodeExtHandshake(got), enc) {
			t.Errorf("re-encoding differs")
		}
	}
	// Empty dictionary: everything absent.
	got, err := DecodeExtHandshake([]byte("de"), true)
	if err != nil || !reflect.DeepEqual(got, ExtHandshake{}) {
		t.Errorf("empty: %#v %v", got, err)
	}
	// Present-but-zero values survive a round trip.
	z := ExtHandshake{M: map[string]int64{}, HasV: true, HasP: true, HasReqq: true,
		HasMetadataSize: true, HasUploadOnly: true, HasE: true}
	got, err = DecodeExtHandshake(EncodeExtHandshake(z), true)
	if err != nil || !reflect.DeepEqual(got, z) {
		t.Errorf("zeros: %#v %v", got, err)
	}
}

func TestExtHandshakeStrict(t *testing.T) {
	bad := []string{
		"",
		"le",
		"i1e",
		"dex",                    // trailing
		"d1:mlee",                // m not a dict
		"d1:md6:ut_pex1:aee",     // m value not an int
		"d1:md6:ut_pexi256eee",   // m value out of range
		"d1:md6:ut_pexi-1eee",    // m value negative
		"d1:pi65536ee",           // port out of range
		"d1:p2:abe",              // port not an int
		"d4:reqqi-1ee",           //
		"d13:metadata_sizei-5ee", //
		"d4:ipv43:abce",          //
		"d4:ipv615:" + strings.Repeat("a", 15) + "e",
		"d4:ipv617:" + strings.Repeat("a", 17) + "e",
		"d4:ipv64:abcde",      //
		"d6:yourip5:abcdee",   //
		"d11:upload_onlyi2ee", //
		"d1:ei2ee",            //
		"d1:vi1ee",            // v not a string
		"d1:v1:x1:pi1ee",      // unsorted
	}
	for _, s := range bad {
		if h, err := DecodeExtHandshake([]byte(s), true); err == nil {
			t.Errorf("strict DecodeExtHandshake(%q) = %#v, want error", s, h)
		}
	}
	// Lenient: wrong types land in Other, out-of-range values are kept.
	h, err := DecodeExtHandshake([]byte("d1:v1:x1:pi70000e4:reqq1:a1:md1:a1:b1:ci5eeeJUNK"), false)
	if err != nil {
		t.Fatal(err)
	}
	want := ExtHandshake{
		V: "x", HasV: true, P: 70000, HasP: true,
		M:     map[string]int64{"c": 5},
		Other: map[string]any{"reqq": []byte("a")},
	}
	if !reflect.DeepEqual(h, want) {
		t.Errorf("lenient: %#v", h)
	}
}

func TestMetadata(t *testing.T) {
	// BEP 9 examples.
	if got := string(EncodeMetadata(MetadataMsg{Type: MetadataRequest, Piece: 0})); got != "d8:msg_typei0e5:piecei0ee" {
		t.Errorf("request = %q", got)
	}
	if got := string(EncodeMetadata(MetadataMsg{Type: MetadataReject, Piece: 0})); got != "d8:msg_typei2e5:piecei0ee" {
		t.Errorf("reject = %q", got)
	}
	data := MetadataMsg{Type: MetadataData, Piece: 0, TotalSize: 3425, HasTotalSize: true, Data: []byte("xxxxxxxx")}
	if got := string(EncodeMetadata(data)); got != "d8:msg_typei1e5:piecei0e10:total_sizei3425eexxxxxxxx" {
		t.Errorf("data = %q", got)
	}
	for _, m := range []MetadataMsg{
		{Type: MetadataRequest, Piece: 5},
		{Type: MetadataReject, Piece: 1 << 40},
		data,
		// Data that itself looks like bencoding must be kept verbatim.
		{Type: MetadataData, Piece: 1, TotalSize: 20000, HasTotalSize: true, Data: []byte("d4:infod6:lengthi1eee")},
	} {
		for _, strict := range []bool{true, false} {
			got, err := DecodeMetadata(EncodeMetadata(m), strict)
			if err != nil || !reflect.DeepEqual(got, m) {
				t.Errorf("strict=%v: round trip of %#v: %#v, %v", strict, m, got, err)
			}
		}
	}
	bad := []string{
		"",
		"le",
		"de",
		"d8:msg_typei0ee",            // no piece
		"d5:piecei0ee",               // no msg_type
		"d8:msg_typei3e5:piecei0ee",  // unknown type
		"d8:msg_typei-1e5:piecei0ee", //
		"d8:msg_typei0e5:piecei-1ee", // negative piece
		"d8:msg_typei0e5:piecei0eeX", // request with trailing data
		"d8:msg_typei2e5:piecei0eeX", // reject with trailing data
		"d8:msg_typei1e5:piecei0eeX", // data without total_size
		"d8:msg_typei1e5:piecei0e10:total_sizei9ee",  // data without data
		"d8:msg_typei1e5:piecei0e10:total_size1:aeX", // total_size not an int
		"d5:piecei0e8:msg_typei0ee",                  // unsorted
		"d8:msg_type1:05:piecei0ee",                  // msg_type not an int
	}
	for _, s := range bad {
		if m, err := DecodeMetadata([]byte(s), true); err == nil {
			t.Errorf("strict DecodeMetadata(%q) = %#v, want error", s, m)
		}
	}
	big := EncodeMetadata(MetadataMsg{Type: 1, Piece: 0, TotalSize: 99999, HasTotalSize: true, Data: make([]byte, MetadataBlock+1)})
	if _, err := DecodeMetadata(big, true); err == nil {
		t.Error("oversized block accepted in strict mode")
	}
	if m, err := DecodeMetadata(big, false); err != nil || len(m.Data) != MetadataBlock+1 {
		t.Errorf("oversized block, lenient: %v", err)
	}
	// Lenient: unknown type and trailing data are reported, not rejected.
	m, err := DecodeMetadata([]byte("d5:piecei4e8:msg_typei9eeTAIL"), false)
	if err != nil || m.Type != 9 || m.Piece != 4 || string(m.Data) != "TAIL" || m.HasTotalSize {
		t.Errorf("lenient: %#v %v", m, err)
	}
}

func samplePex() (added, dropped []PexPeer) {
	added = []PexPeer{
		{IP: net.IP{10, 0, 0, 1}, Port: 6881, Flags: PexPreferEncryption | PexReachable},
		{IP: net.ParseIP("2001:db8::2").To16(), Port: 51413, Flags: PexUploadOnly},
		{IP: net.IP{192, 0, 2, 9}, Port: 1, Flags: 0},
	}
	dropped = []PexPeer{
		{IP: net.ParseIP("2001:db8::3").To16(), Port: 80},
		{IP: net.IP{10, 0, 0, 2}, Port: 65535},
	}
	return
}

func TestPexGolden(t *testing.T) {
	added := []PexPeer{{IP: net.IP{1, 2, 3, 4}, Port: 0x1ae1, Flags: 0x11}}
	dropped := []PexPeer{{IP: net.IP{5, 6, 7, 8}, Port: 0x0102}}
	want := "d5:added6:\x01\x02\x03\x04\x1a\xe1" + "7:added.f1:\x11" + "6:added60:" + "8:added6.f0:" +
		"7:dropped6:\x05\x06\x07\x08\x01\x02" + "8:dropped60:" + "e"
	if got := string(EncodePex(added, dropped)); got != want {
		t.Errorf("got  %q\nwant %q", got, want)
	}
	// A 16-byte IPv4-mapped address is normalised to IPv4.
	mapped := []PexPeer{{IP: net.ParseIP("1.2.3.4"), Port: 0x1ae1, Flags: 0x11}}
	if got := string(EncodePex(mapped, dropped)); got != want {
		t.Errorf("mapped: got %q", got)
	}
}

func TestPexRoundTrip(t *testing.T) {
	added, dropped := samplePex()
	enc := EncodePex(added, dropped)
	// Decoding returns IPv4 peers first, then IPv6 ones.
	wantAdded := []PexPeer{added[0], added[2], added[1]}
	wantDropped := []PexPeer{dropped[1], dropped[0]}
	for _, strict := range []bool{true, false} {
		a, d, err := DecodePex(enc, strict)
		if err != nil {
			t.Fatalf("strict=%v: %v", strict, err)
		}
		if !reflect.DeepEqual(a, wantAdded) {
			t.Errorf("strict=%v: added = %v", strict, a)
		}
		if !reflect.DeepEqual(d, wantDropped) {
			t.Errorf("strict=%v: dropped = %v", strict, d)
		}
		for _, p := range append(a, d...) {
			if len(p.IP) != 4 && len(p.IP) != 16 {
				t.Errorf("IP length %d", len(p.IP))
			}
		}
	}
	a, d, err := DecodePex([]byte("de"), true)
	if err != nil || len(a) != 0 || len(d) != 0 {
		t.Errorf("empty: %v %v %v", a, d, err)
	}
	// Flags key absent: accepted, flags are zero.
	a, _, err = DecodePex([]byte("d5:added6:\x01\x02\x03\x04\x00\x05e"), true)
	if err != nil || len(a) != 1 || a[0].Flags != 0 || a[0].Port != 5 {
		t.Errorf("no flags: %v %v", a, err)
	}
}

func TestPexStrict(t *testing.T) {
	bad := []string{
		"",
		"le",
		"d5:added5:aaaaae",   // not a multiple of 6
		"d5:added7:aaaaaaae", //
		"d6:added617:" + strings.Repeat("a", 17) + "e", // not a multiple of 18
		"d7:dropped1:ae", //
		"d8:dropped619:" + strings.Repeat("a", 19) + "e",
		"d5:added6:aaaaaa7:added.f0:e",   // flags too short
		"d5:added6:aaaaaa7:added.f2:xxe", // flags too long
		"d5:added0:7:added.f1:xe",        // flags without peers
		"d6:added618:" + strings.Repeat("a", 18) + "8:added6.f2:xxe",
		"d5:addedi1ee",           // wrong type
		"d7:added.flee",          // wrong type
		"d7:added.f0:5:added0:e", // unsorted
		"deX",                    // trailing
	}
	for _, s := range bad {
		if a, d, err := DecodePex([]byte(s), true); err == nil {
			t.Errorf("strict DecodePex(%q) = %v, %v, want error", s, a, d)
		}
	}
	// Lenient: incomplete entries dropped, flags padded, wrong types ignored.
	a, d, err := DecodePex([]byte("d5:added13:aaaaaabbbbbbc7:added.f1:\x027:droppedi1ee"), false)
	if err != nil || len(a) != 2 || len(d) != 0 || a[0].Flags != 2 || a[1].Flags != 0 {
		t.Errorf("lenient: %v %v %v", a, d, err)
	}
}

func TestDontHaveAndUploadOnly(t *testing.T) {
	if got := EncodeDontHave(0x01020304); !bytes.Equal(got, []byte{1, 2, 3, 4}) {
		t.Errorf("donthave = %x", got)
	}
	if i, err := DecodeDontHave([]byte{1, 2, 3, 4}); err != nil || i != 0x01020304 {
		t.Errorf("%v %v", i, err)
	}
	for _, b := range [][]byte{nil, {1, 2, 3}, {1, 2, 3, 4, 5}} {
		if _, err := DecodeDontHave(b); err == nil {
			t.Errorf("DecodeDontHave(%x) accepted", b)
		}
	}
	// Complete frame: lt_donthave on sub-id 7.
	f := Encode(Extended{7, EncodeDontHave(5)})
	if !bytes.Equal(f, unhex(t, "00000006 14 07 00000005")) {
		t.Errorf("frame %x", f)
	}

	if !bytes.Equal(EncodeUploadOnly(true), []byte{1}) || !bytes.Equal(EncodeUploadOnly(false), []byte{0}) {
		t.Error("EncodeUploadOnly")
	}
	for _, strict := range []bool{true, false} {
		for _, on := range []bool{true, false} {
			got, err := DecodeUploadOnly(EncodeUploadOnly(on), strict)
			if err != nil || got != on {
				t.Errorf("upload_only round trip: %v %v", got, err)
			}
		}
	}
	for _, b := range [][]byte{nil, {2}, {0, 0}, []byte("i1e")} {
		if _, err := DecodeUploadOnly(b, true); err == nil {
			t.Errorf("strict DecodeUploadOnly(%x) accepted", b)
		}
	}
	if on, err := DecodeUploadOnly([]byte("i1e"), false); err != nil || !on {
		t.Errorf("lenient i1e: %v %v", on, err)
	}
	if on, err := DecodeUploadOnly([]byte("i0e"), false); err != nil || on {
		t.Errorf("lenient i0e: %v %v", on, err)
	}
	if on, err := DecodeUploadOnly([]byte{7}, false); err != nil || !on {
		t.Errorf("lenient 7: %v %v", on, err)
	}
	if _, err := DecodeUploadOnly([]byte("le"), false); err == nil {
		t.Error("lenient le accepted")
	}
}
