// Placeholder; the build replaces this file with the site table generated
// by simrewrite.
package simsites
