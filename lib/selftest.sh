#!/bin/bash
# Determinism self-test: every (scenario, seed) is run in three fresh
# processes at GOMAXPROCS 1, 4 and 16 with full logging; the complete
# result records (choices, trace, logs, stats, schedule hash) must be
# byte-identical.   usage: selftest.sh <simcheck binary> [nseeds] [scenario...]
set -u
B=$1; shift
N=${1:-40}; [ $# -gt 0 ] && shift
SCENS="$*"
[ -z "$SCENS" ] && SCENS=$("$B" list | cut -d' ' -f1)
BASE=${VERIF_SEED:-1}
tmp=$(mktemp -d /tmp/verif-selftest.XXXXXX)
trap 'rm -rf "$tmp"' EXIT
one() { # scen idx
	local scen=$1 i=$2 ref="" h bad=0
	for p in 1 4 16; do
		h=$(GOMAXPROCS=$p "$B" work -scen "$scen" -base "$BASE" -from "$i" -n 1 -keep -log 20000 2>&1 | grep '^R ' | sed -e 's/0x[0-9a-f]*//g' | sha256sum | cut -c1-16)
		if [ -z "$ref" ]; then ref=$h; elif [ "$h" != "$ref" ]; then bad=1; fi
	done
	if [ $bad = 1 ]; then echo "DIVERGED $scen $i"; else echo "same $scen $i $ref"; fi
}
export -f one; export B BASE
fail=0
for s in $SCENS; do
	seq 0 $((N-1)) | xargs -P 16 -I{} bash -c "one $s {}" >"$tmp/$s.out"
	d=$(grep -c DIVERGED "$tmp/$s.out")
	u=$(grep '^same' "$tmp/$s.out" | awk '{print $4}' | sort -u | wc -l)
	echo "selftest determinism scenario=$s seeds=$N processes=$((3*N)) diverged=$d distinct_logs=$u"
	if [ "$d" != 0 ]; then grep DIVERGED "$tmp/$s.out" | head -5; fail=1; fi
done
exit $((fail*2))
