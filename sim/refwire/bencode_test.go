package refwire

import (
	"bytes"
	"math"
	"math/rand"
	"reflect"
	"strings"
	"testing"
)

func TestBEncodeGolden(t *testing.T) {
	cases := []struct {
		v    any
		want string
	}{
		{0, "i0e"},
		{int64(-42), "i-42e"},
		{uint32(4294967295), "i4294967295e"},
		{int64(math.MinInt64), "i-9223372036854775808e"},
		{"spam", "4:spam"},
		{[]byte{}, "0:"},
		{"", "0:"},
		{[]any{"spam", "eggs"}, "l4:spam4:eggse"},
		{[]any{}, "le"},
		{map[string]any{}, "de"},
		{map[string]any{"cow": "moo", "spam": "eggs"}, "d3:cow3:moo4:spam4:eggse"},
		{map[string]any{"spam": []any{"a", "b"}}, "d4:spaml1:a1:bee"},
		// Keys sort as raw bytes: "B" (0x42) < "a" (0x61) < "aa" < "b".
		{map[string]any{"b": 1, "aa": 2, "a": 3, "B": 4}, "d1:Bi4e1:ai3e2:aai2e1:bi1ee"},
		{map[string]int64{"z": 1, "y": 2}, "d1:yi2e1:zi1ee"},
	}
	for _, c := range cases {
		if got := string(BEncode(c.v)); got != c.want {
			t.Errorf("BEncode(%v) = %q, want %q", c.v, got, c.want)
		}
	}
}

func TestBDecodeGolden(t *testing.T) {
	v, rest, err := BDecode([]byte("d3:cow3:moo4:spaml1:ai-3eeeXYZ"), true)
	if err != nil {
		t.Fatal(err)
	}
	want := map[string]any{
		"cow":  []byte("moo"),
		"spam": []any{[]byte("a"), int64(-3)},
	}
	if !reflect.DeepEqual(v, want) {
		t.Errorf("got %#v", v)
	}
	if string(rest) != "XYZ" {
		t.Errorf("rest = %q", rest)
	}
}

// randValue builds a random value in decoded form.
func randValue(r *rand.Rand, depth int) any {
	k := r.Intn(4)
	if depth <= 0 {
		k = r.Intn(2)
	}
	switch k {
	case 0:
		switch r.Intn(4) {
		case 0:
			return int64(0)
		case 1:
			return int64(math.MinInt64)
		case 2:
			return int64(math.MaxInt64)
		}
		return r.Int63() - r.Int63()
	case 1:
		b := make([]byte, r.Intn(20))
		r.Read(b)
		return b
	case 2:
		l := make([]any, r.Intn(4))
		for i := range l {
			l[i] = randValue(r, depth-1)
		}
		return l
	default:
		m := map[string]any{}
		for i, n := 0, r.Intn(4); i < n; i++ {
			k := make([]byte, r.Intn(5))
			r.Read(k)
			m[string(k)] = randValue(r, depth-1)
		}
		return m
	}
}

func TestBencodeRoundTrip(t *testing.T) {
	r := rand.New(rand.NewSource(1))
	for i := 0; i < 5000; i++ {
		v := randValue(r, 5)
		enc := BEncode(v)
		tail := []byte("tail")
		for _, strict := range []bool{true, false} {
			got, rest, err := BDecode(append(clone(enc), tail...), strict)
			if err != nil {
				t.Fatalf("strict=%v: BDecode(%q): %v", strict, enc, err)
			}
			if !reflect.DeepEqual(got, v) {
				t.Fatalf("strict=%v: round trip of %q: got %#v want %#v", strict, enc, got, v)
			}
			if !bytes.Equal(rest, tail) {
				t.Fatalf("rest = %q", rest)
			}
			// Canonical: re-encoding gives the same bytes.
			if !bytes.Equal(BEncode(got), enc) {
				t.Fatalf("re-encoding of %q differs", enc)
			}
		}
	}
}

func TestBDecodeStrictRejections(t *testing.T) {
	cases := []struct {
		in        string
		lenientOK bool // accepted in lenient mode
	}{
		{"i03e", true},                    // leading zero
		{"i00e", true},                    // leading zero
		{"i-0e", true},                    // negative zero
		{"i-03e", true},                   // both
		{"03:abc", true},                  // leading zero in length
		{"00:", true},                     // leading zero in length
		{"d1:bi1e1:ai2ee", true},          // unsorted keys
		{"d1:ai1e1:ai2ee", true},          // duplicate keys
		{"d2:aai1e1:ai2ee", true},         // "aa" before "a"
		{"ie", false},                     // empty integer
		{"i-e", false},                    // sign only
		{"i+1e", false},                   // plus sign
		{"i1", false},                     // unterminated
		{"i", false},                      //
		{"i1x", false},                    //
		{"i9223372036854775808e", false},  // > MaxInt64
		{"i-9223372036854775809e", false}, // < MinInt64
		{"i99999999999999999999999999e", false},
		{"5:abc", false},                     // string longer than input
		{"99999999999999999999999:a", false}, // absurd length
		{"18446744073709551616:a", false},    // 2^64
		{"9223372036854775807:a", false},     // MaxInt64
		{"1", false},                         // unterminated length
		{"1x", false},
		{":", false},
		{"-1:a", false},
		{"l", false},
		{"li1e", false},
		{"d", false},
		{"d1:a", false},
		{"d1:ai1e", false},
		{"di1ei2ee", false}, // non-string key
		{"dlei1ee", false},  // non-string key
		{"", false},
		{"e", false},
		{"x", false},
	}
	for _, c := range cases {
		if v, _, err := BDecode([]byte(c.in), true); err == nil {
			t.Errorf("strict BDecode(%q) = %#v, want error", c.in, v)
		}
		_, _, err := BDecode([]byte(c.in), false)
		if c.lenientOK && err != nil {
			t.Errorf("lenient BDecode(%q): %v", c.in, err)
		}
		if !c.lenientOK && err == nil {
			t.Errorf("lenient BDecode(%q) succeeded, want error", c.in)
		}
	}
}

func TestBDecodeLenientLastWins(t *testing.T) {
	v, rest, err := BDecode([]byte("d1:bi1e1:ai2e1:bi3ee"), false)
	if err != nil || len(rest) != 0 {
		t.Fatal(err, rest)
	}
	want := map[string]any{"a": int64(2), "b": int64(3)}
	if !reflect.DeepEqual(v, want) {
		t.Errorf("got %#v", v)
	}
	if v, _, err := BDecode([]byte("i-0e"), false); err != nil || v != int64(0) {
		t.Errorf("lenient -0: %v %v", v, err)
	}
	if v, _, err := BDecode([]byte("i007e"), false); err != nil || v != int64(7) {
		t.Errorf("lenient 007: %v %v", v, err)
	}
}

func TestBDecodeDepth(t *testing.T) {
	nest := func(n int, open, leaf, close string) []byte {
		return []byte(strings.Repeat(open, n) + leaf + strings.Repeat(close, n))
	}
	// Exactly MaxDepthStrict containers are fine, one more is not.
	if _, _, err := BDecode(nest(MaxDepthStrict, "l", "i1e", "e"), true); err != nil {
		t.Errorf("depth %d rejected: %v", MaxDepthStrict, err)
	}
	if _, _, err := BDecode(nest(MaxDepthStrict+1, "l", "i1e", "e"), true); err == nil {
		t.Errorf("depth %d accepted", MaxDepthStrict+1)
	}
	if _, _, err := BDecode(nest(MaxDepthStrict+1, "d1:a", "i1e", "e"), true); err == nil {
		t.Errorf("dict depth %d accepted", MaxDepthStrict+1)
	}
	if _, _, err := BDecode(nest(MaxDepthStrict+1, "l", "i1e", "e"), false); err != nil {
		t.Errorf("lenient depth %d rejected: %v", MaxDepthStrict+1, err)
	}
	// Very deep input must produce an error, not a stack overflow.
	for _, strict := range []bool{true, false} {
		if _, _, err := BDecode(nest(1000000, "l", "", ""), strict); err == nil {
			t.Errorf("strict=%v: 1e6-deep list accepted", strict)
		}
		if _, _, err := BDecode(nest(1000000, "d0:", "", ""), strict); err == nil {
			t.Errorf("strict=%v: 1e6-deep dict accepted", strict)
		}
	}
}

func TestBDecodeDoesNotAlias(t *testing.T) {
	in := []byte("3:abc")
	v, _, err := BDecode(in, true)
	if err != nil {
		t.Fatal(err)
	}
	in[2] = 'X'
	if string(v.([]byte)) != "abc" {
		t.Errorf("decoded string aliases the input")
	}
}

// TestBDecodeTotal feeds garbage biased towards bencode syntax, and mutated
// valid encodings; the only requirement is the absence of panics, plus
// agreement between the modes (strict success implies lenient success with
// the same value).
func TestBDecodeTotal(t *testing.T) {
	r := rand.New(rand.NewSource(2))
	const alphabet = "ilde0123456789:-ab\x00\xff"
	check := func(b []byte) {
		vs, rs, errS := BDecode(b, true)
		vl, rl, errL := BDecode(b, false)
		if errS == nil {
			if errL != nil {
				t.Fatalf("%q: strict ok but lenient failed: %v", b, errL)
			}
			if !reflect.DeepEqual(vs, vl) || !bytes.Equal(rs, rl) {
				t.Fatalf("%q: modes disagree", b)
			}
			// A strictly valid prefix is canonical.
			if !bytes.Equal(BEncode(vs), b[:len(b)-len(rs)]) {
				t.Fatalf("%q: strict accepted a non-canonical encoding", b)
			}
		}
	}
	for i := 0; i < 100000; i++ {
		b := make([]byte, r.Intn(24))
		for j := range b {
			b[j] = alphabet[r.Intn(len(alphabet))]
		}
		check(b)
	}
	for i := 0; i < 20000; i++ {
		b := BEncode(randValue(r, 4))
		for n := r.Intn(3); n >= 0 && len(b) > 0; n-- {
			switch r.Intn(3) {
			case 0:
				b[r.Intn(len(b))] = alphabet[r.Intn(len(alphabet))]
			case 1:
				b = b[:r.Intn(len(b)+1)]
			case 2:
				j := r.Intn(len(b) + 1)
				b = append(b[:j:j], append([]byte{alphabet[r.Intn(len(alphabet))]}, b[j:]...)...)
			}
		}
		check(b)
	}
	for i := 0; i < 20000; i++ {
		b := make([]byte, r.Intn(40))
		r.Read(b)
		check(b)
	}
}

func FuzzBDecode(f *testing.F) {
	f.Add([]byte("d1:ai1e1:bl3:abcee"), true)
	f.Add([]byte("i-0e"), false)
	f.Fuzz(func(t *testing.T, b []byte, strict bool) {
		v, rest, err := BDecode(b, strict)
		if err != nil {
			return
		}
		if strict && !bytes.Equal(BEncode(v), b[:len(b)-len(rest)]) {
			t.Fatalf("strict accepted non-canonical %q", b)
		}
	})
}
