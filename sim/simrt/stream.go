package simrt

// The choice stream: the single source of every decision of a run
// (scheduler, select seeds, map orders, network, faults, generated
// operations).  In exploration it is a SplitMix64 generator whose drawn
// *decisions* are recorded; in replay the recorded decisions are fed back,
// with 0 ("the simplest choice") once the list is exhausted or a value is
// out of range.

type Stream struct {
	state     uint64
	replaying bool
	replay    []uint32
	pos       int
	rec       []uint32
	Overrun   int // replay positions read beyond the recorded list
}

func splitmix(x *uint64) uint64 {
	*x += 0x9e3779b97f4a7c15
	z := *x
	z = (z ^ (z >> 30)) * 0xbf58476d1ce4e5b9
	z = (z ^ (z >> 27)) * 0x94d049bb133111eb
	return z ^ (z >> 31)
}

// Mix derives a 64-bit value from a seed and an index.
func Mix(seed uint64, idx uint64) uint64 {
	x := seed ^ (idx * 0xd1342543de82ef95)
	splitmix(&x)
	return splitmix(&x)
}

func NewStream(seed uint64) *Stream {
	return &Stream{state: seed}
}

func NewReplay(choices []uint32) *Stream {
	return &Stream{replaying: true, replay: choices}
}

// Recorded returns the decisions drawn so far.
func (st *Stream) Recorded() []uint32 { return st.rec }

// Len returns the number of decisions drawn so far.
func (st *Stream) Len() int { return len(st.rec) }

// Choice returns a value in [0,n).  n<=1 returns 0 and records nothing.
func (st *Stream) Choice(n int) int {
	if n <= 1 {
		return 0
	}
	var v uint32
	if st.replaying {
		if st.pos < len(st.replay) {
			v = st.replay[st.pos]
		} else {
			st.Overrun++
		}
		st.pos++
		if int(v) >= n {
			v = 0
		}
	} else {
		v = uint32(splitmix(&st.state) % uint64(n))
	}
	st.rec = append(st.rec, v)
	return int(v)
}

// Bool is true with probability num/den; recorded as 1/0.
func (st *Stream) Bool(num, den int) bool {
	if num <= 0 || den <= 0 {
		return false
	}
	var v uint32
	if st.replaying {
		if st.pos < len(st.replay) {
			v = st.replay[st.pos]
		} else {
			st.Overrun++
		}
		st.pos++
		if v > 1 {
			v = 0
		}
	} else {
		if int(splitmix(&st.state)%uint64(den)) < num {
			v = 1
		}
	}
	st.rec = append(st.rec, v)
	return v == 1
}

// Weighted returns index i with probability w[i]/sum(w); index 0 should be
// the simplest alternative.
func (st *Stream) Weighted(w ...int) int {
	if len(w) <= 1 {
		return 0
	}
	var v uint32
	if st.replaying {
		if st.pos < len(st.replay) {
			v = st.replay[st.pos]
		} else {
			st.Overrun++
		}
		st.pos++
		if int(v) >= len(w) || w[v] <= 0 {
			v = 0
		}
	} else {
		sum := 0
		for _, x := range w {
			if x > 0 {
				sum += x
			}
		}
		if sum > 0 {
			r := int(splitmix(&st.state) % uint64(sum))
			for i, x := range w {
				if x <= 0 {
					continue
				}
				if r < x {
					v = uint32(i)
					break
				}
				r -= x
			}
		}
	}
	st.rec = append(st.rec, v)
	return int(v)
}

// Range returns a value in [lo,hi] (inclusive); lo is the simplest.
func (st *Stream) Range(lo, hi int) int {
	if hi <= lo {
		return lo
	}
	return lo + st.Choice(hi-lo+1)
}

// Sub draws one decision and returns an independent generator derived from
// it, for bulk data (payload bytes, content) that should not be recorded
// value by value.
func (st *Stream) Sub() *Stream {
	v := st.Choice(1 << 30)
	return &Stream{state: Mix(uint64(v), 0x5eed)}
}

// Fill fills p with pseudo-random bytes derived from one recorded decision.
func (st *Stream) Fill(p []byte) {
	sub := st.Sub()
	for i := 0; i < len(p); i += 8 {
		x := splitmix(&sub.state)
		for j := 0; j < 8 && i+j < len(p); j++ {
			p[i+j] = byte(x >> (8 * j))
		}
	}
}

// Uint64 returns 64 bits drawn as three recorded decisions.
func (st *Stream) Uint64() uint64 {
	return uint64(st.Choice(1<<31))<<33 | uint64(st.Choice(1<<31))<<2 | uint64(st.Choice(4))
}

// Pick returns one of the given values (first is simplest).
func Pick[T any](st *Stream, vals ...T) T {
	return vals[st.Choice(len(vals))]
}

// EncodeRLE turns a decision list into a compact form: pairs
// (zeros, value) meaning "zeros zero decisions followed by value";
// a trailing run of zeros is dropped (replay supplies zeros).
func EncodeRLE(c []uint32) [][2]uint32 {
	var out [][2]uint32
	zeros := uint32(0)
	for _, v := range c {
		if v == 0 {
			zeros++
			continue
		}
		out = append(out, [2]uint32{zeros, v})
		zeros = 0
	}
	return out
}

func DecodeRLE(r [][2]uint32) []uint32 {
	var out []uint32
	for _, p := range r {
		for i := uint32(0); i < p[0]; i++ {
			out = append(out, 0)
		}
		out = append(out, p[1])
	}
	return out
}

// NewRaw returns an unrecorded generator (for per-role randomness whose
// values must not depend on the schedule).
func NewRaw(seed uint64) *Stream { return &Stream{state: Mix(seed, 0x7a77)} }

// RawFill fills p from the generator state without recording anything.
func (st *Stream) RawFill(p []byte) {
	for i := 0; i < len(p); i += 8 {
		x := splitmix(&st.state)
		for j := 0; j < 8 && i+j < len(p); j++ {
			p[i+j] = byte(x >> (8 * j))
		}
	}
}

// Read makes a raw generator usable as an io.Reader.
func (st *Stream) Read(p []byte) (int, error) {
	st.RawFill(p)
	return len(p), nil
}
