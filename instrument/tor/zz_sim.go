package tor

import (
	"context"
	"sync"

	"github.com/jech/storrent/config"
	"github.com/jech/storrent/known"
	"github.com/jech/storrent/peer"
	"github.com/jech/storrent/webseed"
)

// Read-only accessors for the simulator's oracles (called only at instants
// where no other goroutine is executing) and resets of process globals.

func SimReset() { torrents = sync.Map{} }

func (t *Torrent) SimAvailable() []uint16 { return append([]uint16(nil), t.available...) }
func (t *Torrent) SimInFlight() []uint8   { return append([]uint8(nil), t.inFlight...) }
func (t *Torrent) SimPeers() []*peer.Peer { return append([]*peer.Peer(nil), t.peers...) }
func (t *Torrent) SimEventLen() int       { return len(t.Event) }
func (t *Torrent) SimProxy() string       { return t.proxy }
func (t *Torrent) SimAmInterested() bool  { return t.amInterested }
func (t *Torrent) SimInfoLen() int        { return len(t.Info) }
func (t *Torrent) SimInfoComplete() bool  { return t.infoComplete != 0 }

func (t *Torrent) SimConf() (config.DhtMode, bool, bool) {
	return t.dhtMode, t.useTrackers, t.useWebseeds
}

// SimRequested returns, per requested piece, its priorities and whether a
// completion channel is pending.
func (t *Torrent) SimRequested() (prios map[uint32][]int8, waiting map[uint32]bool) {
	prios = map[uint32][]int8{}
	waiting = map[uint32]bool{}
	for i, r := range t.requested.pieces {
		prios[i] = append([]int8(nil), r.prio...)
		waiting[i] = r.done != nil
	}
	return
}

func (t *Torrent) SimKnown() []known.Peer {
	var out []known.Peer
	for _, k := range t.known {
		out = append(out, *k)
	}
	return out
}

func SimCount() int { return count() }

// ---- web seeds (C14) ----

type SimFileChunk struct {
	Path       []string
	FileLength int64
	Offset     int64
	Length     int64
	Pad        bool
}

// SimFileChunks exposes the range-to-files mapping.
func SimFileChunks(t *Torrent, index, offset, length uint32) []SimFileChunk {
	var out []SimFileChunk
	for _, fc := range fileChunks(t, index, offset, length) {
		out = append(out, SimFileChunk{fc.path, fc.filelength, fc.offset, fc.length, fc.pad})
	}
	return out
}

// SimWebseedFetch does what maybeWebseed does once it has chosen a web seed
// and a range: it reserves the blocks and runs the fetch (in the caller's
// goroutine).  It must be called while the torrent's goroutine is idle.
func SimWebseedFetch(ctx context.Context, t *Torrent, n int, index, offset, length uint32) {
	cpp := t.Pieces.PieceSize() / config.ChunkSize
	for i := uint32(0); i < length; i += config.ChunkSize {
		noteInFlight(t, index*cpp+(offset+i)/config.ChunkSize, true)
	}
	switch ws := t.webseeds[n].(type) {
	case *webseed.GetRight:
		webseedGR(ctx, ws, t, index, offset, length)
	case *webseed.Hoffman:
		webseedH(ctx, ws, t, index, offset, length)
	}
}

// SimWebseedsIdle reports whether no web-seed fetch is running.
func (t *Torrent) SimWebseedsIdle() bool {
	for _, ws := range t.webseeds {
		if ws.Count() != 0 {
			return false
		}
	}
	return true
}
