#!/bin/bash
# Seeded changes (deliberately broken versions of jech/storrent).
#
#   lib/seeded.sh import <dir with patch.diff, zz_demo_test.go, meta.json> <id>
#   lib/seeded.sh verify <id>      confirm in a scratch worktree: compiles, suite passes, demo fails with / passes without
#   lib/seeded.sh run <id> [secs]  apply to /repo, run the property's quick check, undo; records the outcome
#   lib/seeded.sh table            regenerate seeded/README.md
set -u
VERIF="$(cd "$(dirname "${BASH_SOURCE[0]}")/.." && pwd)"
REPO=/repo
export GOFLAGS=-mod=mod GOPROXY=off GOSUMDB=off GOTOOLCHAIN=local
cmd=${1:-}; shift || true

meta_get() { python3 -c "import json,sys;print(json.load(open('$1')).get('$2',''))"; }
meta_set() { python3 - "$1" "$2" "$3" <<'EOF'
import json,sys
f,k,v=sys.argv[1:4]
m=json.load(open(f))
try: v=json.loads(v)
except Exception: pass
m[k]=v
json.dump(m,open(f,'w'),indent=1)
EOF
}

case "$cmd" in
import)
	src=$1; id=$2
	mkdir -p "$VERIF/seeded/$id"
	cp "$src/patch.diff" "$src/meta.json" "$VERIF/seeded/$id/"
	cp "$src"/zz_demo_test.go "$VERIF/seeded/$id/" 2>/dev/null || cp "$src"/*_test.go "$VERIF/seeded/$id/zz_demo_test.go"
	echo "imported $id"
	;;
verify)
	id=$1; d="$VERIF/seeded/$id"
	wt=$(mktemp -d /tmp/seeded-verify.XXXXXX)
	git -C $REPO worktree add -q --detach "$wt" HEAD || exit 2
	trap 'git -C $REPO worktree remove --force "$wt" >/dev/null 2>&1; rm -rf "$wt"' EXIT
	demo_dir=$(meta_get "$d/meta.json" demo_dir)
	ok=1; notes=""
	( cd "$wt" && git apply "$d/patch.diff" ) || { echo "$id: patch does not apply to HEAD"; meta_set "$d/meta.json" confirmed false; meta_set "$d/meta.json" confirm_notes "patch does not apply to /repo HEAD"; exit 1; }
	( cd "$wt" && go build ./... ) >/dev/null 2>&1 || { ok=0; notes="$notes does-not-build;"; }
	if [ $ok = 1 ]; then
		( cd "$wt" && go test -vet=off -count=1 ./... ) >"$wt/suite.log" 2>&1 || { ok=0; notes="$notes existing-suite-fails;"; }
	fi
	if [ $ok = 1 ]; then
		cp "$d/zz_demo_test.go" "$wt/$demo_dir/zz_demo_test.go"
		fails=0
		for i in 1 2 3; do
			( cd "$wt/$demo_dir" && timeout 180 go test -vet=off -count=1 -run 'TestDemo' . ) >"$wt/demo-with.log" 2>&1 || fails=$((fails+1))
		done
		[ $fails -ge 3 ] || { ok=0; notes="$notes demo-failed-only-$fails/3-with-change;"; }
		( cd "$wt" && git apply -R "$d/patch.diff" )
		pass=0
		for i in 1 2 3; do
			( cd "$wt/$demo_dir" && timeout 180 go test -vet=off -count=1 -run 'TestDemo' . ) >"$wt/demo-without.log" 2>&1 && pass=$((pass+1))
		done
		[ $pass -ge 3 ] || { ok=0; notes="$notes demo-passed-only-$pass/3-without-change;"; }
	fi
	if [ $ok = 1 ]; then
		meta_set "$d/meta.json" confirmed true
		meta_set "$d/meta.json" confirm_notes "on /repo $(git -C $REPO rev-parse --short HEAD): builds, existing suite passes, demo fails 3/3 with the change and passes 3/3 without"
		echo "$id: confirmed"
	else
		meta_set "$d/meta.json" confirmed false
		meta_set "$d/meta.json" confirm_notes "$notes"
		echo "$id: NOT confirmed:$notes"
		exit 1
	fi
	;;
run)
	id=$1; secs=${2:-60}; d="$VERIF/seeded/$id"
	prop=$(meta_get "$d/meta.json" property)
	if [ -n "$(git -C $REPO status --porcelain | grep -v '^??')" ]; then echo "/repo is not clean"; exit 2; fi
	git -C $REPO apply "$d/patch.diff" || { echo "$id: patch does not apply"; exit 2; }
	trap 'git -C $REPO checkout -- . ' EXIT
	t0=$(date +%s)
	out=$(cd "$VERIF" && VERIF_BUDGET=$secs ./check "$prop" quick 2>&1)
	code=$?
	t1=$(date +%s)
	git -C $REPO checkout -- .
	trap - EXIT
	viol=$(echo "$out" | grep '^violation:' | head -3 | cut -c1-400)
	# the evidence file and replays written for the broken tree are not kept
	rm -f "$VERIF"/replays/"$prop"-*.json
	git -C "$VERIF" checkout -- "evidence/$prop.json" 2>/dev/null
	if [ $code = 1 ]; then caught=true; else caught=false; fi
	meta_set "$d/meta.json" caught "$caught"
	meta_set "$d/meta.json" check_run "VERIF_BUDGET=$secs ./check $prop quick -> exit $code in $((t1-t0)) s"
	meta_set "$d/meta.json" check_says "$(echo "$viol" | head -1)"
	echo "$id: exit=$code caught=$caught $(echo "$viol" | head -1 | cut -c1-200)"
	[ $code = 2 ] && echo "$out" | tail -5
	;;
table)
	python3 - "$VERIF/seeded" <<'EOF'
import json,sys,os,glob
root=sys.argv[1]
rows=[]
for f in sorted(glob.glob(root+'/*/meta.json')):
    m=json.load(open(f)); id=os.path.basename(os.path.dirname(f))
    rows.append((id,m))
out=["# Seeded changes","","Deliberately broken versions of jech/storrent, written by independent sub-agents that saw only the property text.  Each directory holds `patch.diff`, the agent's demonstration `zz_demo_test.go` (fails with the change, passes without) and `meta.json`.","","| id | property | what the change does | needs | confirmed | caught at first run (machinery of that time) | caught by `./check <property> quick` (final machinery) | what the check said |","|---|---|---|---|---|---|---|---|"]
for id,m in rows:
    out.append("| %s | %s | %s | %s | %s | %s | %s | %s |"%(id,m.get('property'),str(m.get('summary','')).replace('|','/'),str(m.get('needs','')).replace('|','/')[:160],m.get('confirmed'),(m.get('first_run') or {}).get('caught'),"%s (%s)"%(m.get('caught'),m.get('check_run','')),str(m.get('check_says','')).replace('|','/')[:200]))
open(root+'/README.md','w').write("\n".join(out)+"\n")
print(len(rows),"seeded changes")
EOF
	;;
*)
	sed -n 2,8p "$0"; exit 2 ;;
esac
