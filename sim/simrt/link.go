package simrt

import _ "unsafe"

// Provided by /verif/overlay/zsim.go (package runtime, go1.26.8 overlay build).

//go:linkname runtime_simSetSelect runtime.simSetSelect
func runtime_simSetSelect(on bool, seed uint64)

//go:linkname runtime_simGoid runtime.simGoid
func runtime_simGoid() uint64

//go:linkname runtime_simInBubble runtime.simInBubble
func runtime_simInBubble() bool

//go:linkname runtime_simRun runtime.simRun
func runtime_simRun(f func())

//go:linkname runtime_simWait runtime.simWait
func runtime_simWait()

// the real monotonic clock (time.Now is the bubble's fake clock); used only
// to give up on runs that take too long, never for a decision of a run
//
//go:linkname runtime_nanotime runtime.nanotime
func runtime_nanotime() int64
