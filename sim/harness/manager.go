package harness

import (
	"bufio"
	"bytes"
	"encoding/json"
	"fmt"
	"io"
	"os"
	"os/exec"
	"path/filepath"
	"runtime"
	"sort"
	"strconv"
	"strings"
	"sync"
	"syscall"
	"time"

	"github.com/jech/storrent/zzsim/simrt"
)

// ---- worker ------------------------------------------------------------------

type BatchSummary struct {
	Scen        string           `json:"scen"`
	Runs        int              `json:"runs"`
	Nontrivial  int              `json:"nontrivial"`
	Hashes      []uint64         `json:"hashes"` // schedule hashes of the non-trivial runs
	Steps       uint64           `json:"steps"`
	Choices     uint64           `json:"choices"`
	Preempts    uint64           `json:"preempts"`
	SimSeconds  float64          `json:"sim_seconds"`
	MaxG        int              `json:"max_g"`
	Probes      map[string]int64 `json:"probes"`
	Faults      map[string]int64 `json:"faults"`
	FaultRuns   map[string]int64 `json:"fault_runs"`
	EndReasons  map[string]int   `json:"end_reasons"`
	Samples     []any            `json:"samples,omitempty"`
	Leftover    int              `json:"leftover"`
	WithFaults  int              `json:"with_faults"`
	WallSeconds float64          `json:"wall_seconds"`
}

func seedFor(base uint64, idx int) uint64 { return simrt.Mix(base, uint64(idx)+1) }

// Work runs indices [from, from+n) of a scenario and writes line-oriented
// results to w:  "S <idx>" before each run, "R <json>" for every run that
// has something to report, "B <json>" at the end.
func Work(w io.Writer, scen string, base uint64, from, n int, tier string, logLimit int, keep bool) error {
	sc := scenarios[scen]
	if sc == nil {
		return fmt.Errorf("unknown scenario %q", scen)
	}
	bw := bufio.NewWriter(w)
	defer bw.Flush()
	sum := &BatchSummary{Scen: scen, Probes: map[string]int64{}, Faults: map[string]int64{}, FaultRuns: map[string]int64{}, EndReasons: map[string]int{}}
	t0 := time.Now()
	for i := from; i < from+n; i++ {
		fmt.Fprintf(bw, "S %d\n", i)
		bw.Flush()
		st := simrt.NewStream(seedFor(base, i))
		res := RunOne(sc, st, RunOpts{Tier: tier, LogLimit: logLimit, Keep: keep, Index: i})
		res.Base, res.Index = base, i
		sum.Runs++
		sum.Steps += res.Stats.Steps
		sum.Choices += uint64(res.NChoices)
		sum.Preempts += res.Stats.Preempts
		sum.SimSeconds += res.Stats.SimTime.Seconds()
		if res.Stats.MaxG > sum.MaxG {
			sum.MaxG = res.Stats.MaxG
		}
		sum.Leftover += res.Stats.Leftover
		for k, v := range res.Probes {
			sum.Probes[k] += v
		}
		nf := int64(0)
		for k, v := range res.Faults {
			sum.Faults[k] += v
			sum.FaultRuns[k]++
			nf += v
		}
		if nf > 0 {
			sum.WithFaults++
		}
		sum.EndReasons[res.Stats.EndReason]++
		if res.Nontrivial {
			sum.Nontrivial++
			sum.Hashes = append(sum.Hashes, res.Stats.SchedHash)
			if len(sum.Samples) < 2 && res.Sample != nil {
				sum.Samples = append(sum.Samples, map[string]any{"scenario": scen, "seed_base": base, "index": i, "case": res.Sample,
					"faults": res.Faults, "steps": res.Stats.Steps, "sim_time": res.Stats.SimTime.String()})
			}
		}
		if len(res.Viol) > 0 || len(res.Cross) > 0 || res.Inconclusive != "" || keep {
			b, _ := json.Marshal(res)
			fmt.Fprintf(bw, "R %s\n", b)
			bw.Flush()
		}
	}
	sum.WallSeconds = time.Since(t0).Seconds()
	b, _ := json.Marshal(sum)
	fmt.Fprintf(bw, "B %s\n", b)
	return nil
}

// ---- replay files --------------------------------------------------------------

type ReplayFile struct {
	Property    string           `json:"property"`
	Scenario    string           `json:"scenario"`
	Oracle      string           `json:"oracle"`
	Class       string           `json:"class"`
	Detail      string           `json:"detail"`
	Tier        string           `json:"tier"`
	SeedBase    uint64           `json:"seed_base"`
	SeedIndex   int              `json:"seed_index"`
	Tree        string           `json:"tree"`
	Minimised   bool             `json:"minimised"`
	OrigLen     int              `json:"original_choices"`
	OrigNonzero int              `json:"original_nonzero_choices"`
	Len         int              `json:"choices_len"`
	Nonzero     int              `json:"nonzero_choices"`
	Choices     [][2]uint32      `json:"choices_rle"`          // pairs (zeros, value)
	FatalOnly   bool             `json:"fatal_only,omitempty"` // replay by seed: the process dies
	Trace       []string         `json:"schedule_and_fault_trace"`
	Faults      map[string]int64 `json:"faults_fired"`
	Stats       simrt.Stats      `json:"stats"`
	Note        string           `json:"note,omitempty"`
}

// Replay runs a replay file in this process and returns the result.
func Replay(rf *ReplayFile, logLimit int) (*RunResult, error) {
	sc := scenarios[rf.Scenario]
	if sc == nil {
		return nil, fmt.Errorf("unknown scenario %q", rf.Scenario)
	}
	var st *simrt.Stream
	if rf.FatalOnly {
		st = simrt.NewStream(seedFor(rf.SeedBase, rf.SeedIndex))
	} else {
		st = simrt.NewReplay(simrt.DecodeRLE(rf.Choices))
	}
	res := RunOne(sc, st, RunOpts{Tier: rf.Tier, LogLimit: logLimit, Keep: true, Index: rf.SeedIndex})
	return res, nil
}

func matchViolation(res *RunResult, prop, oracle, class string) *Violation {
	for i := range res.Viol {
		v := &res.Viol[i]
		if v.Prop == prop && v.Oracle == oracle && v.Class == class {
			return v
		}
	}
	return nil
}

// ReplayServer reads candidate choice lists (JSON lines) and answers with
// the keys of the violations each produces.  Used by the shrinker so that a
// fatal error kills only this process.
func ReplayServer(r io.Reader, w io.Writer) {
	in := bufio.NewReaderSize(r, 1<<20)
	out := bufio.NewWriter(w)
	for {
		line, err := in.ReadBytes('\n')
		if len(line) > 1 {
			var req struct {
				Scen    string      `json:"scen"`
				Tier    string      `json:"tier"`
				Index   int         `json:"index"`
				Choices [][2]uint32 `json:"choices"`
			}
			if json.Unmarshal(line, &req) == nil {
				res := RunOne(scenarios[req.Scen], simrt.NewReplay(simrt.DecodeRLE(req.Choices)), RunOpts{Tier: req.Tier, Keep: true, Index: req.Index})
				res.Logs = nil
				res.Trace = nil
				b, _ := json.Marshal(res)
				out.Write(b)
				out.WriteByte('\n')
				out.Flush()
			}
		}
		if err != nil {
			return
		}
	}
}

// ---- known findings --------------------------------------------------------------

type KnownFinding struct {
	Kind   string // "known" or "fixed"
	Prop   string
	Oracle string
	Class  string
	Replay string
	Text   string
}

// LoadKnown parses /verif/known_findings.txt:
//
//	known: property=C04 oracle=alloc-bound class=bencode-string replay=replays/known/x.json <what fails>
//	fixed: property=C05 <commit> <what failed>
func LoadKnown(path string) []KnownFinding {
	b, err := os.ReadFile(path)
	if err != nil {
		return nil
	}
	var out []KnownFinding
	for _, l := range strings.Split(string(b), "\n") {
		l = strings.TrimSpace(l)
		if l == "" || strings.HasPrefix(l, "#") {
			continue
		}
		var k KnownFinding
		switch {
		case strings.HasPrefix(l, "known:"):
			k.Kind = "known"
			l = strings.TrimSpace(l[6:])
		case strings.HasPrefix(l, "fixed:"):
			k.Kind = "fixed"
			l = strings.TrimSpace(l[6:])
		default:
			continue
		}
		var rest []string
		for _, f := range strings.Fields(l) {
			switch {
			case strings.HasPrefix(f, "property="):
				k.Prop = f[9:]
			case strings.HasPrefix(f, "oracle=") && k.Kind == "known":
				k.Oracle = f[7:]
			case strings.HasPrefix(f, "class=") && k.Kind == "known":
				k.Class = f[6:]
			case strings.HasPrefix(f, "replay=") && k.Kind == "known":
				k.Replay = f[7:]
			default:
				rest = append(rest, f)
			}
		}
		k.Text = strings.Join(rest, " ")
		out = append(out, k)
	}
	return out
}

// ---- manager -------------------------------------------------------------------------

type CheckOpts struct {
	Prop         string
	Tier         string
	Seed         uint64
	Budget       time.Duration
	Workers      int
	Batch        int
	Evidence     string
	Replays      string
	Known        string
	VerifDir     string
	Tree         string
	Self         string // path of this executable
	MemLimitKB   int
	ShrinkBudget time.Duration
}

type agg struct {
	mu        sync.Mutex
	perScen   map[string]*BatchSummary
	hashes    map[string]map[uint64]struct{}
	cross     map[string]int
	crossEx   map[string]string
	inconcl   map[string]int
	viol      []*RunResult
	knownHits map[string]int
	fatal     []fatalRec
	batches   int
}

type fatalRec struct {
	Scen   string
	Index  int
	Stderr string
}

func (a *agg) addBatch(b *BatchSummary) {
	a.mu.Lock()
	defer a.mu.Unlock()
	a.batches++
	s := a.perScen[b.Scen]
	if s == nil {
		s = &BatchSummary{Scen: b.Scen, Probes: map[string]int64{}, Faults: map[string]int64{}, FaultRuns: map[string]int64{}, EndReasons: map[string]int{}}
		a.perScen[b.Scen] = s
		a.hashes[b.Scen] = map[uint64]struct{}{}
	}
	s.Runs += b.Runs
	s.Nontrivial += b.Nontrivial
	s.Steps += b.Steps
	s.Choices += b.Choices
	s.Preempts += b.Preempts
	s.SimSeconds += b.SimSeconds
	s.Leftover += b.Leftover
	s.WithFaults += b.WithFaults
	s.WallSeconds += b.WallSeconds
	if b.MaxG > s.MaxG {
		s.MaxG = b.MaxG
	}
	for k, v := range b.Probes {
		s.Probes[k] += v
	}
	for k, v := range b.Faults {
		s.Faults[k] += v
	}
	for k, v := range b.FaultRuns {
		s.FaultRuns[k] += v
	}
	for k, v := range b.EndReasons {
		s.EndReasons[k] += v
	}
	for _, h := range b.Hashes {
		a.hashes[b.Scen][h] = struct{}{}
	}
	if len(s.Samples) < 3 {
		s.Samples = append(s.Samples, b.Samples...)
	}
}

func isKnown(known []KnownFinding, v Violation) *KnownFinding {
	for i := range known {
		k := &known[i]
		if k.Kind == "known" && k.Prop == v.Prop && k.Oracle == v.Oracle && k.Class == v.Class {
			return k
		}
	}
	return nil
}

// Check runs the exploration for one property and returns the exit code.
func Check(o CheckOpts) int {
	t0 := time.Now()
	scs := ScenariosFor(o.Prop)
	if len(scs) == 0 {
		fmt.Fprintf(os.Stderr, "no scenario serves property %s\n", o.Prop)
		return 2
	}
	if o.Workers <= 0 {
		o.Workers = runtime.NumCPU()
	}
	if o.Batch <= 0 {
		o.Batch = 100
	}
	known := LoadKnown(o.Known)
	fmt.Printf("check property=%s tier=%s seed=%d budget=%v workers=%d scenarios=%v tree=%s\n", o.Prop, o.Tier, o.Seed, o.Budget, o.Workers, scenNames(scs), o.Tree)

	// replay the committed replays of known findings first
	knownStill := map[string]bool{}
	for _, k := range known {
		if k.Kind != "known" || k.Prop != o.Prop {
			continue
		}
		key := k.Prop + "/" + k.Oracle + "/" + k.Class
		if k.Replay != "" {
			p := k.Replay
			if !filepath.IsAbs(p) {
				p = filepath.Join(o.VerifDir, p)
			}
			code, out := runSelf(o, nil, "replay", "-file", p, "-quiet")
			if code == 1 {
				knownStill[key] = true
			} else if code != 0 {
				fmt.Printf("note: replay of known finding %s exited %d: %s\n", k.Replay, code, lastLines(out, 3))
			}
		}
	}

	a := &agg{perScen: map[string]*BatchSummary{}, hashes: map[string]map[uint64]struct{}{}, cross: map[string]int{}, crossEx: map[string]string{}, inconcl: map[string]int{}, knownHits: map[string]int{}}
	deadline := t0.Add(o.Budget)
	var stop bool
	var stopMu sync.Mutex
	stopped := func() bool { stopMu.Lock(); defer stopMu.Unlock(); return stop }
	setStop := func() { stopMu.Lock(); stop = true; stopMu.Unlock() }

	// work queue: scenarios weighted round-robin, consecutive index chunks
	type chunk struct {
		sc   *Scenario
		from int
	}
	next := map[string]int{}
	var qmu sync.Mutex
	var order []*Scenario
	for _, sc := range scs {
		wt := sc.Weight
		if sc.Also[o.Prop] > 0 {
			wt = sc.Also[o.Prop]
		}
		for i := 0; i < wt; i++ {
			order = append(order, sc)
		}
	}
	rr := 0
	batchFor := func(sc *Scenario) int {
		return o.Batch
	}
	take := func() (chunk, bool) {
		qmu.Lock()
		defer qmu.Unlock()
		if time.Now().After(deadline) {
			return chunk{}, false
		}
		sc := order[rr%len(order)]
		rr++
		c := chunk{sc, next[sc.Name]}
		next[sc.Name] += batchFor(sc)
		return c, true
	}
	var wg sync.WaitGroup
	for w := 0; w < o.Workers; w++ {
		wg.Add(1)
		go func() {
			defer wg.Done()
			for !stopped() {
				c, ok := take()
				if !ok {
					return
				}
				runBatch(o, a, c.sc, c.from, batchFor(c.sc), known, setStop, deadline)
			}
		}()
	}
	wg.Wait()
	explored := time.Since(t0)

	// ---- outcome
	exit := 0
	var violLines []string
	for key := range knownStill {
		if a.knownHits[key] == 0 {
			a.knownHits[key] = 0
		}
	}
	for _, k := range known {
		if k.Kind != "known" || k.Prop != o.Prop {
			continue
		}
		key := k.Prop + "/" + k.Oracle + "/" + k.Class
		if knownStill[key] || a.knownHits[key] > 0 {
			fmt.Printf("KNOWN-FINDING: property=%s oracle=%s class=%s %s (replay %s; %d further hits in this run)\n", k.Prop, k.Oracle, k.Class, k.Text, k.Replay, a.knownHits[key])
		}
	}
	nviol := 0
	reported := map[string]bool{}
	// fatal worker deaths
	for _, f := range a.fatal {
		v := Violation{Prop: o.Prop, Oracle: "fatal", Class: fatalClass(f.Stderr), Detail: lastLines(f.Stderr, 30)}
		if v.Class == "watchdog" {
			v.Detail = "the run made no progress for 120 s of wall time: code that loops without ever blocking or reaching a yield point; running goroutines:\n" + runningStacks(f.Stderr)
		}
		sc := scenarios[f.Scen]
		if !containsProp(sc.CrashTo, o.Prop) {
			a.cross["crash/fatal/"+v.Class]++
			continue
		}
		if kf := isKnown(known, v); kf != nil {
			continue
		}
		if reported[v.Key()] {
			continue
		}
		reported[v.Key()] = true
		rf := &ReplayFile{Property: o.Prop, Scenario: f.Scen, Oracle: v.Oracle, Class: v.Class, Detail: v.Detail, Tier: o.Tier,
			SeedBase: o.Seed, SeedIndex: f.Index, Tree: o.Tree, FatalOnly: true, Note: "the process under simulation died with a fatal runtime error; replay is by seed"}
		if v.Class == "died" {
			// no Go runtime failure in the worker's last words: it was killed or could not start
			fmt.Printf("HARNESS-ERROR: a worker died at %s index %d without a runtime failure message: %q\n", f.Scen, f.Index, lastLines(f.Stderr, 3))
			exit = 2
			continue
		}
		path := writeReplay(o, rf)
		limit := 15 * time.Minute
		if v.Class == "watchdog" {
			limit = 150 * time.Second // the run was killed after 120 s without progress: a replay that is still going after 150 s hangs the same way
		}
		code, _ := runSelfLimit(o, limit, nil, "replay", "-file", path, "-quiet")
		if code == 0 || code == 1 || (code == 124) != (v.Class == "watchdog") {
			fmt.Printf("HARNESS-ERROR: fatal error (%s) at %s index %d did not reproduce on replay (exit %d)\n", v.Class, f.Scen, f.Index, code)
			os.Remove(path)
			exit = 2
			continue
		}
		nviol++
		violLines = append(violLines, fmt.Sprintf("VIOLATION property=%s replay=%s", o.Prop, path))
		fmt.Printf("violation: %s in %s index %d: %s\n", v.Key(), f.Scen, f.Index, firstLine(v.Detail))
	}
	for _, res := range a.viol {
		for _, v := range res.Viol {
			if v.Prop != o.Prop || reported[v.Key()] {
				continue
			}
			if isKnown(known, v) != nil {
				continue
			}
			reported[v.Key()] = true
			fmt.Printf("violation: %s in %s index %d: %s\n", v.Key(), res.Scen, res.Index, firstLine(v.Detail))
			rf, err := shrinkAndWrite(o, res, v)
			if err != nil {
				fmt.Printf("HARNESS-ERROR: %v\n", err)
				exit = 2
				continue
			}
			nviol++
			violLines = append(violLines, fmt.Sprintf("VIOLATION property=%s replay=%s", o.Prop, rf))
			if nviol >= 5 {
				break
			}
		}
	}
	if nviol > 0 {
		exit = 1
	}
	writeEvidence(o, a, scs, explored, time.Since(t0), nviol)
	for _, l := range violLines {
		fmt.Println(l)
	}
	total := 0
	for _, s := range a.perScen {
		total += s.Runs
	}
	fmt.Printf("done property=%s runs=%d wall=%.1fs violations=%d exit=%d\n", o.Prop, total, time.Since(t0).Seconds(), nviol, exit)
	if total == 0 && exit == 0 {
		fmt.Println("HARNESS-ERROR: no run completed")
		return 2
	}
	return exit
}

func containsProp(list, p string) bool {
	for _, x := range strings.Split(list, ",") {
		if x == p {
			return true
		}
	}
	return false
}

func scenNames(scs []*Scenario) []string {
	var out []string
	for _, s := range scs {
		out = append(out, s.Name)
	}
	return out
}

func firstLine(s string) string {
	if i := strings.IndexByte(s, '\n'); i >= 0 {
		return s[:i]
	}
	return s
}

func lastLines(s string, n int) string {
	l := strings.Split(strings.TrimRight(s, "\n"), "\n")
	if len(l) > n {
		l = l[len(l)-n:]
	}
	return strings.Join(l, "\n")
}

// runningStacks extracts the stacks of the goroutines that were executing
// from a SIGQUIT dump.
func runningStacks(dump string) string {
	var out []string
	keep := 0
	for _, l := range strings.Split(dump, "\n") {
		if strings.HasPrefix(l, "goroutine ") {
			keep = 0
			if strings.Contains(l, "[running") || strings.Contains(l, "[runnable") {
				keep = 24
			}
		}
		if keep > 0 && len(out) < 80 {
			out = append(out, l)
			keep--
		}
	}
	if len(out) == 0 {
		return "(no goroutine dump)"
	}
	return strings.Join(out, "\n")
}

func fatalClass(stderr string) string {
	if strings.Contains(stderr, "\nwatchdog: run made no progress") {
		return "watchdog"
	}
	for _, l := range strings.Split(stderr, "\n") {
		if strings.HasPrefix(l, "fatal error:") {
			return strings.TrimSpace(strings.TrimPrefix(l, "fatal error:"))
		}
		if strings.HasPrefix(l, "runtime: out of memory") {
			return "out of memory"
		}
		if strings.HasPrefix(l, "panic:") {
			c := strings.TrimSpace(strings.TrimPrefix(l, "panic:"))
			if len(c) > 60 {
				c = c[:60]
			}
			return c
		}
	}
	if strings.Contains(stderr, "watchdog") {
		return "watchdog"
	}
	return "died"
}

// runSelf runs this binary with args; a process that is still running after
// limit is killed and reported as exit code 124.
func runSelf(o CheckOpts, stdin io.Reader, args ...string) (int, string) {
	return runSelfLimit(o, 15*time.Minute, stdin, args...)
}

func runSelfLimit(o CheckOpts, limit time.Duration, stdin io.Reader, args ...string) (int, string) {
	cmd := exec.Command(o.Self, args...)
	cmd.Stdin = stdin
	var out bytes.Buffer
	cmd.Stdout = &out
	cmd.Stderr = &out
	timedOut := false
	if err := cmd.Start(); err != nil {
		return 3, err.Error()
	}
	timer := time.AfterFunc(limit, func() { timedOut = true; cmd.Process.Kill() })
	err := cmd.Wait()
	timer.Stop()
	if timedOut {
		return 124, out.String()
	}
	code := 0
	if err != nil {
		if ee, ok := err.(*exec.ExitError); ok {
			code = ee.ExitCode()
			if code < 0 {
				code = 3
			}
		} else {
			code = 3
		}
	}
	return code, out.String()
}

func workerCmd(o CheckOpts, args ...string) *exec.Cmd {
	if o.MemLimitKB > 0 {
		sh := fmt.Sprintf("ulimit -v %d; exec \"$0\" \"$@\"", o.MemLimitKB)
		return exec.Command("/bin/bash", append([]string{"-c", sh, o.Self}, args...)...)
	}
	return exec.Command(o.Self, args...)
}

func runBatch(o CheckOpts, a *agg, sc *Scenario, from, n int, known []KnownFinding, setStop func(), deadline time.Time) {
	cmd := workerCmd(o, "work", "-scen", sc.Name, "-base", strconv.FormatUint(o.Seed, 10), "-from", strconv.Itoa(from), "-n", strconv.Itoa(n), "-tier", o.Tier)
	stdout, _ := cmd.StdoutPipe()
	var stderr bytes.Buffer
	cmd.Stderr = &stderr
	if err := cmd.Start(); err != nil {
		fmt.Fprintf(os.Stderr, "worker start: %v\n", err)
		return
	}
	last := -1
	gotB := false
	lastProgress := time.Now()
	var pmu sync.Mutex
	killedBy := "" // (not written into stderr: the process's output is still being copied there)
	done := make(chan struct{})
	// watchdog: a run that takes more than 120 s of wall time is stuck in
	// code that never yields
	go func() {
		t := time.NewTicker(2 * time.Second)
		defer t.Stop()
		for {
			select {
			case <-done:
				return
			case <-t.C:
				pmu.Lock()
				stuck := time.Since(lastProgress) > 120*time.Second
				pmu.Unlock()
				if stuck {
					pmu.Lock()
					killedBy = "\nwatchdog: run made no progress for 120 s of wall time; worker killed\n"
					pmu.Unlock()
					// ask the Go runtime for its goroutine stacks first: they say where it loops
					cmd.Process.Signal(syscall.SIGQUIT)
					select {
					case <-done:
					case <-time.After(10 * time.Second):
					}
					cmd.Process.Kill()
					return
				}
			}
		}
	}()
	rd := bufio.NewReaderSize(stdout, 1<<20)
	for {
		line, err := rd.ReadBytes('\n')
		if len(line) > 2 {
			switch line[0] {
			case 'S':
				last, _ = strconv.Atoi(strings.TrimSpace(string(line[2:])))
				pmu.Lock()
				lastProgress = time.Now()
				pmu.Unlock()
			case 'R':
				var res RunResult
				if json.Unmarshal(line[2:], &res) == nil {
					a.mu.Lock()
					mine := false
					for _, v := range res.Viol {
						if v.Prop == o.Prop {
							if isKnown(known, v) != nil {
								a.knownHits[v.Key()]++
							} else {
								mine = true
							}
						} else {
							a.cross[v.Key()]++
							if a.crossEx[v.Key()] == "" {
								a.crossEx[v.Key()] = fmt.Sprintf("%s index %d: %s", res.Scen, res.Index, firstLine(v.Detail))
							}
						}
					}
					for _, v := range res.Cross {
						a.cross[v.Key()]++
						if a.crossEx[v.Key()] == "" {
							a.crossEx[v.Key()] = fmt.Sprintf("%s index %d: %s", res.Scen, res.Index, firstLine(v.Detail))
						}
					}
					if res.Inconclusive != "" {
						a.inconcl[res.Scen+": "+res.Inconclusive]++
					}
					if mine {
						a.viol = append(a.viol, &res)
					}
					a.mu.Unlock()
					if mine {
						setStop()
					}
				}
			case 'B':
				var b BatchSummary
				if json.Unmarshal(line[2:], &b) == nil {
					a.addBatch(&b)
					gotB = true
				}
			}
		}
		if err != nil {
			break
		}
	}
	err := cmd.Wait()
	close(done)
	if !gotB && err != nil {
		a.mu.Lock()
		pmu.Lock()
		a.fatal = append(a.fatal, fatalRec{Scen: sc.Name, Index: last, Stderr: stderr.String() + killedBy})
		pmu.Unlock()
		a.mu.Unlock()
		if containsProp(sc.CrashTo, o.Prop) {
			setStop()
		}
	}
}

// ---- shrinking ----------------------------------------------------------------------------

type replayClient struct {
	o    CheckOpts
	cmd  *exec.Cmd
	in   io.WriteCloser
	out  *bufio.Reader
	runs int
}

func (c *replayClient) start() error {
	c.cmd = workerCmd(c.o, "replay-server")
	var err error
	c.in, err = c.cmd.StdinPipe()
	if err != nil {
		return err
	}
	so, err := c.cmd.StdoutPipe()
	if err != nil {
		return err
	}
	c.out = bufio.NewReaderSize(so, 1<<20)
	return c.cmd.Start()
}

func (c *replayClient) stop() {
	if c.cmd != nil {
		c.in.Close()
		c.cmd.Process.Kill()
		c.cmd.Wait()
		c.cmd = nil
	}
}

// try runs one candidate; died=true if the server process died on it.
func (c *replayClient) try(scen, tier string, index int, choices []uint32) (res *RunResult, died bool) {
	if c.cmd == nil {
		if err := c.start(); err != nil {
			return nil, true
		}
	}
	c.runs++
	req, _ := json.Marshal(map[string]any{"scen": scen, "tier": tier, "index": index, "choices": simrt.EncodeRLE(choices)})
	type ans struct {
		line []byte
		err  error
	}
	ch := make(chan ans, 1)
	go func() {
		if _, err := c.in.Write(append(req, '\n')); err != nil {
			ch <- ans{nil, err}
			return
		}
		l, err := c.out.ReadBytes('\n')
		ch <- ans{l, err}
	}()
	select {
	case a := <-ch:
		if a.err != nil || len(a.line) < 2 {
			c.stop()
			return nil, true
		}
		var r RunResult
		if json.Unmarshal(a.line, &r) != nil {
			c.stop()
			return nil, true
		}
		return &r, false
	case <-time.After(120 * time.Second):
		c.stop()
		return nil, true
	}
}

func nonzero(c []uint32) int {
	n := 0
	for _, v := range c {
		if v != 0 {
			n++
		}
	}
	return n
}

func trimZeros(c []uint32) []uint32 {
	for len(c) > 0 && c[len(c)-1] == 0 {
		c = c[:len(c)-1]
	}
	return c
}

// shrink minimises a failing choice list while the same violation
// (property, oracle, class) persists.
func shrink(o CheckOpts, scen string, index int, choices []uint32, v Violation) ([]uint32, *RunResult, int) {
	cl := &replayClient{o: o}
	defer cl.stop()
	budget := o.ShrinkBudget
	if budget == 0 {
		budget = 60 * time.Second
	}
	deadline := time.Now().Add(budget)
	var bestRes *RunResult
	check := func(c []uint32) bool {
		res, died := cl.try(scen, o.Tier, index, c)
		if died || res == nil {
			return false
		}
		if matchViolation(res, v.Prop, v.Oracle, v.Class) != nil {
			bestRes = res
			return true
		}
		return false
	}
	fails := func(c []uint32) bool {
		if time.Now().After(deadline) || cl.runs > 3000 {
			return false
		}
		return check(c)
	}
	best := trimZeros(append([]uint32(nil), choices...))
	if !check(best) {
		return nil, nil, cl.runs
	}
	// 1. shortest failing prefix
	lo, hi := 0, len(best)
	for lo < hi && time.Now().Before(deadline) {
		mid := (lo + hi) / 2
		if fails(best[:mid]) {
			hi = mid
		} else {
			lo = mid + 1
		}
	}
	if hi < len(best) && fails(best[:hi]) {
		best = trimZeros(append([]uint32(nil), best[:hi]...))
	}
	for pass := 0; pass < 3 && time.Now().Before(deadline); pass++ {
		changed := false
		// 2. zero out blocks of non-zero decisions
		var nz []int
		for i, x := range best {
			if x != 0 {
				nz = append(nz, i)
			}
		}
		for size := len(nz) / 2; size >= 1 && time.Now().Before(deadline); size /= 2 {
			for start := 0; start < len(nz); start += size {
				end := min(start+size, len(nz))
				cand := append([]uint32(nil), best...)
				any := false
				for _, i := range nz[start:end] {
					if cand[i] != 0 {
						cand[i] = 0
						any = true
					}
				}
				if any && fails(cand) {
					best = cand
					changed = true
				}
			}
		}
		best = trimZeros(best)
		// 3. delete ranges
		for size := 256; size >= 1 && time.Now().Before(deadline); size /= 4 {
			for start := 0; start+size <= len(best) && time.Now().Before(deadline); {
				cand := append(append([]uint32(nil), best[:start]...), best[start+size:]...)
				if fails(cand) {
					best = cand
					changed = true
				} else {
					start += size
				}
				if size < 16 && len(best) > 4000 {
					break
				}
			}
		}
		// 4. lower values
		for i := 0; i < len(best) && time.Now().Before(deadline); i++ {
			if best[i] <= 1 {
				continue
			}
			for _, nv := range []uint32{1, best[i] / 2, best[i] - 1} {
				if nv >= best[i] || nv == 0 {
					continue
				}
				cand := append([]uint32(nil), best...)
				cand[i] = nv
				if fails(cand) {
					best = cand
					changed = true
					break
				}
			}
		}
		best = trimZeros(best)
		if !changed {
			break
		}
	}
	// final confirmation gives the result to report
	if !check(best) {
		if os.Getenv("VERIF_DEBUG") != "" {
			res, died := cl.try(scen, o.Tier, index, best)
			fmt.Fprintf(os.Stderr, "shrink: final confirmation failed: %d choices, died=%v res=%+v\n", len(best), died, res)
		}
		return nil, nil, cl.runs
	}
	if best == nil {
		best = []uint32{} // the all-default run fails: an empty list, not "no result"
	}
	return best, bestRes, cl.runs
}

func writeReplay(o CheckOpts, rf *ReplayFile) string {
	os.MkdirAll(o.Replays, 0o755)
	name := fmt.Sprintf("%s-%s-%d-%d.json", rf.Property, rf.Scenario, rf.SeedBase, rf.SeedIndex)
	path := filepath.Join(o.Replays, name)
	b, _ := json.MarshalIndent(rf, "", " ")
	os.WriteFile(path, b, 0o644)
	return path
}

func shrinkAndWrite(o CheckOpts, res *RunResult, v Violation) (string, error) {
	orig := simrt.DecodeRLE(res.Choices)
	best, bres, runs := shrink(o, res.Scen, res.Index, orig, v)
	minimised := true
	if best == nil {
		// did not reproduce in the replay server: that is a determinism
		// problem of the harness, not a property violation
		return "", fmt.Errorf("violation %s at %s index %d did not reproduce when its recorded choices were replayed (%d replays)", v.Key(), res.Scen, res.Index, runs)
	}
	mv := matchViolation(bres, v.Prop, v.Oracle, v.Class)
	rf := &ReplayFile{Property: v.Prop, Scenario: res.Scen, Oracle: v.Oracle, Class: v.Class, Detail: mv.Detail, Tier: o.Tier,
		SeedBase: res.Base, SeedIndex: res.Index, Tree: o.Tree, Minimised: minimised, OrigLen: len(orig), OrigNonzero: nonzero(orig),
		Len: len(best), Nonzero: nonzero(best), Choices: simrt.EncodeRLE(best), Trace: bres.Trace, Faults: bres.Faults, Stats: bres.Stats,
		Note: fmt.Sprintf("minimised with %d replays", runs)}
	path := writeReplay(o, rf)
	// replay in a fresh process: must fail the same way
	code, out := runSelf(o, nil, "replay", "-file", path, "-quiet")
	if code != 1 {
		return "", fmt.Errorf("minimised replay %s did not reproduce in a fresh process (exit %d): %s", path, code, lastLines(out, 5))
	}
	fmt.Printf("minimised %s: %d -> %d choices (%d -> %d non-zero), %d replays; fresh-process replay reproduces\n", v.Key(), len(orig), len(best), nonzero(orig), nonzero(best), runs)
	return path, nil
}

// ---- evidence ------------------------------------------------------------------------------

func writeEvidence(o CheckOpts, a *agg, scs []*Scenario, explored, wall time.Duration, nviol int) {
	total, nontriv, distinct := 0, 0, 0
	var steps, choices, preempts uint64
	var simSec, workerWall float64
	faults := map[string]int64{}
	faultRuns := map[string]int64{}
	probes := map[string]int64{}
	ends := map[string]int{}
	var samples []any
	perScen := map[string]any{}
	maxG := 0
	leftover := 0
	withFaults := 0
	names := make([]string, 0, len(a.perScen))
	for n := range a.perScen {
		names = append(names, n)
	}
	sort.Strings(names)
	for _, n := range names {
		s := a.perScen[n]
		total += s.Runs
		nontriv += s.Nontrivial
		d := len(a.hashes[n])
		distinct += d
		steps += s.Steps
		choices += s.Choices
		preempts += s.Preempts
		simSec += s.SimSeconds
		workerWall += s.WallSeconds
		leftover += s.Leftover
		withFaults += s.WithFaults
		if s.MaxG > maxG {
			maxG = s.MaxG
		}
		for k, v := range s.Faults {
			faults[n+"/"+k] += v
		}
		for k, v := range s.FaultRuns {
			faultRuns[n+"/"+k] += v
		}
		for k, v := range s.Probes {
			probes[n+"/"+k] += v
		}
		for k, v := range s.EndReasons {
			ends[n+": "+k] += v
		}
		for _, x := range s.Samples {
			if len(samples) < 4 {
				samples = append(samples, x)
			}
		}
		perScen[n] = map[string]any{"runs": s.Runs, "nontrivial": s.Nontrivial, "distinct_nontrivial_schedules": d, "steps": s.Steps, "sim_seconds": s.SimSeconds}
	}
	if len(samples) == 0 {
		samples = append(samples, "no non-trivial run completed")
	}
	hours := explored.Hours()
	if hours <= 0 {
		hours = 1e-9
	}
	cross := map[string]any{}
	for k, n := range a.cross {
		cross[k] = map[string]any{"count": n, "example": a.crossEx[k]}
	}
	ev := map[string]any{
		"property_id": o.Prop,
		"tier":        o.Tier,
		"seed":        int64(o.Seed),
		"level":       "exploration",
		"wall_s":      wall.Seconds(),
		"violations":  nviol,
		"coverage": map[string]any{
			"evaluations":         total,
			"distinct_nontrivial": distinct,
			"rule": "one evaluation = one simulated run (one seed = one schedule + fault sequence + generated workload, executed on the real instrumented code). " +
				"A run is non-trivial when the scenario's progress probe fired (e.g. a piece was verified, a handshake completed, a message was decoded) and, where the scenario injects faults or contention, at least one fault fired or a goroutine was preempted/contended. " +
				"distinct_nontrivial counts distinct values, among non-trivial runs, of a 64-bit hash of the whole sequence of scheduler decisions (goroutine id, yield site) of the run, summed over scenarios.",
			"samples":                            samples,
			"nontrivial_runs":                    nontriv,
			"runs_with_faults":                   withFaults,
			"runs_per_hour":                      float64(total) / hours,
			"seeds_per_hour":                     float64(total) / hours,
			"simulated_seconds_covered":          simSec,
			"scheduler_steps":                    steps,
			"choices_drawn":                      choices,
			"preemptions":                        preempts,
			"max_runnable_goroutines":            maxG,
			"faults_fired":                       faults,
			"runs_in_which_fault_fired":          faultRuns,
			"probes_hit":                         probes,
			"run_end_reasons":                    ends,
			"inconclusive_caps":                  a.inconcl,
			"goroutines_left_blocked_at_run_end": leftover,
			"per_scenario":                       perScen,
			"cross_property_observations":        cross,
			"known_findings_matched":             a.knownHits,
			"worker_batches":                     a.batches,
			"workers":                            o.Workers,
			"exploration_wall_s":                 explored.Seconds(),
			"tree":                               o.Tree,
			"components": map[string]any{
				"real":  componentsReal,
				"stubs": componentsStub,
			},
		},
		"assumptions": []string{
			"sampling: a clean batch is evidence, not proof",
			"interleavings are explored at synchronisation operations (channel ops, selects, locks, atomics, sleeps) inserted by /verif/tools/simrewrite; plain racing memory accesses are not reordered",
			"the executed code is /repo's working tree plus mechanically inserted scheduler calls and the call substitutions listed in DESIGN.md section 2.1",
			"go1.26.8 runtime with a two-file overlay (select poll order, goroutine id); testing/synctest fake clock",
			"reference peers, trackers, web servers and the policy/codec models are independent code written from the BEPs/RFCs",
		},
	}
	b, _ := json.MarshalIndent(ev, "", " ")
	os.MkdirAll(filepath.Dir(o.Evidence), 0o755)
	os.WriteFile(o.Evidence, b, 0o644)
}

var componentsReal = []string{"alloc", "bitmap", "config", "crypto", "hash", "http (handlers)", "fuse (node methods)", "known", "mono", "path", "peer", "peer/requests", "pex", "protocol", "rate", "tor", "tor/piece", "tracker", "webseed", "httpclient (client cache only)", "github.com/zeebo/bencode", "Go standard library above the socket layer"}
var componentsStub = []string{"TCP/UDP sockets (simnet)", "net/http.Transport and origin servers (simhttp)", "remote BitTorrent peers (refpeer, independent codec + MSE)", "trackers (reftracker)", "web seeds (refweb)", "DHT library (repo's own no-cgo stub, calls observed)", "package main (flag parsing, port mapping, signal handling) not run", "FUSE kernel protocol not run", "finalizers not run", "sync.Pool (a per-run stack: last put, first handed out)", "crypto/sha1.Sum computes the real digest and, in half of the runs, takes 0.1-200 ms of simulated time", "capacities of the four buffered queues of peer and tor: the code's own in 7 runs of 8, shortened in the eighth (simrt.Knob)"}
