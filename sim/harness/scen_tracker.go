package harness

import (
	"context"
	"encoding/binary"
	"fmt"
	"net/http"
	"net/netip"
	"sort"
	"strings"
	"time"

	"github.com/jech/storrent/tracker"
	"github.com/jech/storrent/zzsim/refwire"
	"github.com/jech/storrent/zzsim/simrt"
)

// C15: hostile tracker replies are harmless, announces are disciplined.

func init() {
	Register(&Scenario{
		Name: "tracker", Props: []string{"C15"}, CrashTo: "C15",
		Horizon: 400 * time.Hour, MaxSteps: 1000000, Weight: 1, Main: trackerMain,
	})
}

// refTracker is a reference tracker (HTTP and UDP) with scripted and
// hostile behaviours.  It records every contact.
type refTracker struct {
	w        *World
	st       *simrt.Stream
	hostile  bool
	contacts []time.Duration // simulated time of the first message of each announce
	lastSeen time.Duration
	// per accepted reply: what was encoded
	expect              map[string]bool
	interval            int64 // the interval most recently announced in an accepted reply
	intervalKnown       bool
	intervals           []int64
	lastAnnounceContact int
	requests            int
	// udp
	connIDs map[uint64]bool
	log     []string
	replies []trReply
	dirty   map[int]bool // contacts during which the tracker misbehaved in any way
	// per contact: requests seen, and those answered in a way that cannot
	// possibly carry an interval (no connection, an error status, an empty body)
	nreq, nsilent map[int]int
	// stubborn != 0: every datagram of the run is answered with this one
	// kind of bad reply (a tracker that never gives a usable answer)
	stubborn int
	// datagrams received since the most recent invocation of Announce
	udpSinceAnnounce int
}

// maxDatagramsPerAnnounce bounds what one announce may send: BEP 15 allows
// at most 9 transmissions of a request, an announce is two requests, on two
// address families (36); nearly twice that is "unbounded retransmission".
const maxDatagramsPerAnnounce = 64

func (rt *refTracker) noteRequest(silent bool) {
	if rt.nreq == nil {
		rt.nreq, rt.nsilent = map[int]int{}, map[int]int{}
	}
	k := len(rt.contacts) - 1
	rt.nreq[k]++
	if silent {
		rt.nsilent[k]++
	}
}

// misbehaved marks the current contact: what the client makes of the
// replies of such a contact (which one it reads first, whether an earlier
// bad datagram ends the conversation) is its own business.
func (rt *refTracker) misbehaved() {
	if rt.dirty == nil {
		rt.dirty = map[int]bool{}
	}
	rt.dirty[len(rt.contacts)-1] = true
}

func (rt *refTracker) noteContact() {
	now := rt.w.rc.S.Now()
	// several messages of one announce (two address families, UDP
	// retransmissions) arrive within the announce's duration (< 2.5 min)
	if len(rt.contacts) == 0 || now-rt.lastSeen > 150*time.Second {
		rt.contacts = append(rt.contacts, now)
		rt.intervals = append(rt.intervals, -1)
	}
	rt.lastSeen = now
}

type trReply struct {
	at       time.Duration
	interval int64
}

// announceInterval records a well-formed reply that was delivered whole.
func (rt *refTracker) announceInterval(i int64) {
	rt.replies = append(rt.replies, trReply{rt.w.rc.S.Now(), i})
}

func drawInterval(st *simrt.Stream) int64 {
	return simrt.Pick[int64](st, 1800, 300, 0, 59, 61, 120, 299, 301, 3600, 1000000, -1, -300, 1<<31, 1<<31-1, 1<<62)
}

func drawPeers(st *simrt.Stream, v6 bool, n int) []netip.AddrPort {
	var out []netip.AddrPort
	for i := 0; i < n; i++ {
		out = append(out, netip.AddrPortFrom(drawAddr(st, v6), uint16(st.Choice(65536))))
	}
	return out
}

func compact(peers []netip.AddrPort) []byte {
	var b []byte
	for _, p := range peers {
		b = append(b, p.Addr().AsSlice()...)
		b = binary.BigEndian.AppendUint16(b, p.Port())
	}
	return b
}

// httpHandler answers an HTTP announce.
func (rt *refTracker) httpHandler(w *World, req *http.Request, rec *HTTPRec) (*http.Response, error) {
	st := rt.st
	rt.noteContact()
	rt.requests++
	q := req.URL.Query()
	if len(q.Get("info_hash")) != 20 || len(q.Get("peer_id")) != 20 {
		w.rc.Fail("C15", "request-format", "", "announce without a 20-byte info_hash/peer_id: %q", req.URL.RawQuery)
	}
	if rec.Net == "tcp6" && st.Bool(1, 2) {
		rt.noteRequest(true)
		return nil, fmt.Errorf("dial tcp6: network is unreachable")
	}
	if d := time.Duration(st.Choice(3000)) * time.Millisecond; d > 0 {
		simrt.Sleep(d)
	}
	kind := 0
	if rt.hostile {
		kind = st.Weighted(4, 2, 2, 2, 2, 1, 1, 1)
	}
	whole := true
	if rt.hostile && st.Bool(1, 6) {
		whole = false
	}
	if kind != 0 || !whole {
		rt.misbehaved()
	}
	rt.noteRequest(kind == 2 || kind == 6 || kind == 7)
	body := func(b []byte, status int) (*http.Response, error) {
		sb := w.Body(req.Context(), b)
		if !whole && len(b) > 0 {
			sb.failAt = st.Choice(len(b))
		}
		if st.Bool(1, 3) {
			sb.maxRead = 1 + st.Choice(40)
		}
		return MakeResponse(status, nil, sb, int64(len(b))), nil
	}
	switch kind {
	case 0: // a well-formed reply
		iv := drawInterval(st)
		if !rt.hostile {
			iv = simrt.Pick[int64](st, 1800, 300, 600, 3600, 120, 61)
		}
		d := map[string]any{"interval": iv}
		var peers []netip.AddrPort
		switch st.Choice(3) {
		case 0:
			peers = drawPeers(st, false, st.Choice(6))
			d["peers"] = compact(peers)
		case 1:
			peers = drawPeers(st, false, st.Choice(4))
			var l []any
			for _, p := range peers {
				l = append(l, map[string]any{"ip": p.Addr().String(), "port": int64(p.Port())})
			}
			if l == nil {
				l = []any{}
			}
			d["peers"] = l
		case 2:
			peers = drawPeers(st, false, st.Choice(3))
			d["peers"] = compact(peers)
			p6 := drawPeers(st, true, 1+st.Choice(3))
			d["peers6"] = compact(p6)
			peers = append(peers, p6...)
		}
		for _, p := range peers {
			rt.expect[p.String()] = true
		}
		if whole {
			rt.announceInterval(iv)
		}
		rt.log = append(rt.log, fmt.Sprintf("%v reply interval=%d peers=%d", w.rc.S.Now(), iv, len(peers)))
		return body(refwire.BEncode(d), 200)
	case 1: // failure reason
		d := map[string]any{"failure reason": string(drawPrintable(st, 1+st.Choice(30)))}
		if st.Bool(1, 2) {
			d["retry in"] = simrt.Pick(st, "5", "1", "0", "-3", "never", "x", "100000")
		}
		return body(refwire.BEncode(d), 200)
	case 2: // not 200
		return body([]byte("nope"), simrt.Pick(st, 404, 500, 302, 204))
	case 3: // hostile bencode
		b, _ := hostileBencode(st)
		return body(b, 200)
	case 4: // peers with odd lengths, wrong types
		d := map[string]any{"interval": drawInterval(st), "peers": drawBytes(st, simrt.Pick(st, 5, 7, 1, 13)), "peers6": drawBytes(st, simrt.Pick(st, 17, 19, 1))}
		return body(refwire.BEncode(d), 200)
	case 5:
		d := map[string]any{"interval": "soon", "peers": int64(5)}
		return body(refwire.BEncode(d), 200)
	case 6: // empty body
		return body(nil, 200)
	default: // connection failure
		return nil, fmt.Errorf("connection reset by peer")
	}
}

// udpHandler answers one datagram (BEP 15).
func (rt *refTracker) udpHandler(w *World, c *udpConn, data []byte) []UDPReply {
	st := rt.st
	rt.noteContact()
	rt.requests++
	if c.net == "udp6" && st.Bool(1, 2) {
		return nil // no IPv6 service
	}
	if len(data) < 16 {
		return nil
	}
	rt.udpSinceAnnounce++
	if rt.udpSinceAnnounce == maxDatagramsPerAnnounce+1 {
		w.rc.Fail("C15", "retransmission-unbounded", "udp", "%d datagrams were sent to the tracker since the last invocation of Announce (stubborn reply kind %d): retransmission is not bounded", rt.udpSinceAnnounce, rt.stubborn)
	}
	if rt.udpSinceAnnounce > maxDatagramsPerAnnounce {
		return nil // say nothing more, so that every further attempt costs the client a timeout
	}
	action := binary.BigEndian.Uint32(data[8:])
	tid := binary.BigEndian.Uint32(data[12:])
	var reply []byte
	switch action {
	case 0:
		cid := uint64(0x1000 + st.Choice(1<<20))
		rt.connIDs[cid] = true
		reply = binary.BigEndian.AppendUint32(nil, 0)
		reply = binary.BigEndian.AppendUint32(reply, tid)
		reply = binary.BigEndian.AppendUint64(reply, cid)
	case 1:
		if len(data) < 98 {
			w.rc.Fail("C15", "request-format", "udp", "UDP announce of %d bytes, want 98", len(data))
			return nil
		}
		iv := uint32(drawInterval(st))
		if !rt.hostile {
			iv = uint32(simrt.Pick(st, 1800, 300, 600, 3600, 120, 61))
		}
		peers := drawPeers(st, c.net == "udp6", st.Choice(5))
		reply = binary.BigEndian.AppendUint32(nil, 1)
		reply = binary.BigEndian.AppendUint32(reply, tid)
		reply = binary.BigEndian.AppendUint32(reply, iv)
		reply = binary.BigEndian.AppendUint32(reply, 3)
		reply = binary.BigEndian.AppendUint32(reply, 5)
		reply = append(reply, compact(peers)...)
		// whether this reply is accepted depends on what we do with it below
		defer func() {}()
		c.w.rc.S.Values["udp-last-peers"] = peers
		c.w.rc.S.Values["udp-last-interval"] = int64(iv)
	default:
		return nil
	}
	delay := time.Duration(st.Choice(400)) * time.Millisecond
	fault := 0
	if rt.hostile {
		fault = st.Weighted(5, 2, 1, 1, 1, 2, 1, 1, 1)
	}
	if rt.stubborn != 0 {
		fault = rt.stubborn
		delay = time.Duration(500+st.Choice(2500)) * time.Millisecond
	}
	if fault != 0 {
		rt.misbehaved()
	}
	if action == 1 {
		w.rc.Tracef("tracker: %s announce request tid=%08x -> reply interval=%d fault=%d delay=%v", c.net, tid, c.w.rc.S.Values["udp-last-interval"], fault, delay)
	} else {
		w.rc.Tracef("tracker: %s connect request tid=%08x fault=%d delay=%v", c.net, tid, fault, delay)
	}
	accept := func() {
		if action == 1 {
			for _, p := range c.w.rc.S.Values["udp-last-peers"].([]netip.AddrPort) {
				rt.expect[p.String()] = true
			}
			rt.announceInterval(c.w.rc.S.Values["udp-last-interval"].(int64))
		}
	}
	switch fault {
	case 0:
		accept()
		return []UDPReply{{reply, delay}}
	case 1: // foreign transaction id
		simrt.Fault("udp-foreign-transaction-id")
		bad := append([]byte(nil), reply...)
		binary.BigEndian.PutUint32(bad[4:], tid^0x5555)
		return []UDPReply{{bad, delay}}
	case 2: // wrong action
		simrt.Fault("udp-wrong-action")
		bad := append([]byte(nil), reply...)
		binary.BigEndian.PutUint32(bad, simrt.Pick(st, uint32(2), 1-action, 7))
		return []UDPReply{{bad, delay}}
	case 3: // error action
		simrt.Fault("udp-error-reply")
		e := binary.BigEndian.AppendUint32(nil, 3)
		e = binary.BigEndian.AppendUint32(e, tid)
		e = append(e, drawPrintable(st, st.Choice(40))...)
		return []UDPReply{{e, delay}}
	case 4: // truncated: the peers that survive the cut may be learnt
		simrt.Fault("udp-truncated")
		if action == 1 {
			for _, p := range c.w.rc.S.Values["udp-last-peers"].([]netip.AddrPort) {
				rt.expect[p.String()] = true
			}
		}
		return []UDPReply{{reply[:st.Choice(len(reply))], delay}}
	case 5: // lost
		simrt.Fault("udp-loss")
		return nil
	case 6: // duplicated
		simrt.Fault("udp-duplicate")
		accept()
		return []UDPReply{{reply, delay}, {reply, delay + time.Duration(st.Choice(300))*time.Millisecond}}
	case 7: // late: after the retransmission timer
		simrt.Fault("udp-late")
		if action == 1 { // a late reply to an earlier attempt may still be accepted: its peers may be learnt
			for _, p := range c.w.rc.S.Values["udp-last-peers"].([]netip.AddrPort) {
				rt.expect[p.String()] = true
			}
		}
		return []UDPReply{{reply, time.Duration(5+st.Choice(40)) * time.Second}}
	default: // garbage
		simrt.Fault("udp-garbage")
		return []UDPReply{{drawBytes(st, st.Choice(60)), delay}}
	}
}

func trackerMain(rc *RunCtx) {
	st := rc.St
	w := NewWorld(rc)
	defer w.Shutdown()
	udp := st.Bool(1, 2)
	hostile := st.Bool(2, 3)
	rt := &refTracker{w: w, st: st, hostile: hostile, expect: map[string]bool{}, connIDs: map[uint64]bool{}}
	var url string
	if udp {
		url = "udp://tracker.example:6969/announce"
		w.UDP["tracker.example:6969"] = rt.udpHandler
	} else {
		url = "http://tracker.example/announce"
		w.HTTP["tracker.example"] = rt.httpHandler
	}
	// a tracker that answers every datagram, always badly, in the same way
	if udp && hostile && st.Bool(1, 3) {
		rt.stubborn = simrt.Pick(st, 1, 1, 2, 4, 8)
	}
	// an HTTP tracker may be reached through a proxy (one request instead of
	// one per address family)
	proxy := ""
	if !udp && st.Bool(1, 3) {
		proxy = "socks5://127.0.0.1:9050"
	}
	tr := tracker.New(url)
	if tr == nil {
		rc.Fail("C15", "setup", "", "tracker.New(%q) = nil", url)
		return
	}
	rc.SetSample("setup", fmt.Sprintf("%s hostile=%v stubborn=%d proxy=%q", url, hostile, rt.stubborn, proxy))
	got := map[string]bool{}
	hash := drawBytes(st, 20)
	myid := drawBytes(st, 20)
	nactors := 1 + st.Choice(3)
	join := &Join{n: nactors}
	announces := 0
	type annRec struct {
		start, end time.Duration
		err        error
	}
	var anns []annRec
	for a := 0; a < nactors; a++ {
		nops := 3 + st.Choice(14)
		simrt.GoNamed(fmt.Sprintf("announcer%d", a), func() {
			defer join.Done()
			for k := 0; k < nops && !rc.Failed(); k++ {
				// time passes: seconds to hours
				simrt.Sleep(time.Duration(simrt.Pick(st, 60, 1, 299, 300, 301, 900, 1800, 1801, 7200, 100000)) * time.Second)
				if st.Bool(1, 3) {
					s, _ := tr.GetState()
					_ = s
					continue
				}
				to := 120
				if hostile {
					to = simrt.Pick(st, 120, 120, 10, 1)
				}
				if rt.stubborn != 0 {
					// the torrent's own announces carry the torrent's
					// lifetime as their context: practically no deadline
					to = 6 * 3600
				}
				ctx, cancel := context.WithTimeout(context.Background(), time.Duration(to)*time.Second)
				start := rc.S.Now()
				rt.udpSinceAnnounce = 0
				err := tr.Announce(ctx, hash, myid, 50, 1<<20, 6881, 6881, proxy, func(a netip.AddrPort) bool {
					got[a.String()] = true
					return true
				})
				cancel()
				anns = append(anns, annRec{start, rc.S.Now(), err})
				if d := rc.S.Now() - start; d > 3*time.Hour {
					// BEP 15's whole retransmission schedule (15 * 2^n s, n = 0..8) lasts 2 h 8 min
					rc.Fail("C15", "announce-unbounded", "", "an announce with a deadline of %d s returned only after %v (%v): the tracker stays busy for as long as a hostile tracker keeps answering", to, d, err)
				}
				announces++
				if err == nil {
					rc.Progress()
				}
				_, ivl, _ := tracker.SimBase(tr)
				rc.Tracef("Announce -> %v (the tracker object now holds interval %v)", err, ivl)
				if s, _ := tr.GetState(); s == tracker.Busy {
					// another actor may be announcing right now: judged at the end
					simrt.Probe("busy-seen-after-announce")
				}
			}
		})
	}
	join.Wait()
	if rc.Failed() {
		return
	}
	simrt.Sleep(10 * time.Second)
	if s, _ := tr.GetState(); s == tracker.Busy {
		rc.Fail("C15", "stuck-busy", "", "with no announce in progress the tracker reports Busy")
	}
	// exactly the peers of accepted replies
	if !hostile {
		for a := range rt.expect {
			if !got[a] {
				rc.Fail("C15", "peers-missing", "", "peer %s was in a well-formed reply but was not learnt (learnt %d of %d)", a, len(got), len(rt.expect))
				break
			}
		}
	}
	for a := range got {
		if !rt.expect[a] {
			rc.Fail("C15", "peers-invented", "", "peer %s was learnt but no accepted reply contained it", a)
			break
		}
	}
	// discipline: the interval that binds the client after contact i is the
	// smallest interval among the well-formed replies of that contact that
	// were delivered whole, provided the announce succeeded
	binding := func(i int) int64 {
		c := rt.contacts[i]
		ok := false
		for _, a := range anns {
			if a.start <= c && c <= a.end && a.err == nil {
				ok = true
			}
		}
		if !ok || rt.dirty[i] {
			return -1
		}
		best := int64(-1)
		for _, r := range rt.replies {
			if r.at >= c && r.at <= c+150*time.Second {
				if r.interval < 0 || r.interval > 1<<31 {
					return -1 // what an out-of-range interval means is not defined
				}
				if best < 0 || r.interval < best {
					best = r.interval
				}
			}
		}
		return best
	}
	// an interval stays announced while nothing else is: a contact whose
	// every request ended without a reply that could carry an interval (no
	// connection, an error status, an empty body) leaves the client with
	// what it was told before (HTTP contacts only: that is where the
	// reference tracker records it)
	eff := int64(-1)
	for i := 1; i < len(rt.contacts); i++ {
		gap := rt.contacts[i] - rt.contacts[i-1]
		need := 5 * time.Minute
		class := "five-minutes"
		iv := binding(i - 1)
		switch {
		case iv >= 0:
			eff = iv
		case rt.nreq[i-1] > 0 && rt.nsilent[i-1] == rt.nreq[i-1] && eff > 900:
			iv = eff
			class = "interval-announced-earlier"
		default:
			eff = -1
		}
		if iv > 300 && iv <= 1<<31 {
			need = time.Duration(iv) * time.Second
			if class == "five-minutes" {
				class = "announced-interval"
			}
		}
		if gap < need {
			rc.Fail("C15", "discipline", class, "the tracker was contacted again after %v; its previous reply announced interval %d s (minimum %v); contacts %v replies %v announces %v", gap, iv, need, rt.contacts, rt.replies, anns)
			break
		}
	}
	var keys []string
	for k := range got {
		keys = append(keys, k)
	}
	sort.Strings(keys)
	_ = strings.Join
}
