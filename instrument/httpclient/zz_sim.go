package httpclient

func init() {
	// the client-cache expiry goroutine loops for ever on the real clock;
	// it is not started in simulation
	runExpiry.Do(func() {})
}

// SimReset drops cached clients between runs.
func SimReset() {
	mu.Lock()
	clients = make(map[key]client)
	mu.Unlock()
}

// SimProxyOf returns the proxy a client obtained from Get goes through.
func SimProxyOf(c interface{}) (network, proxy string, ok bool) {
	mu.Lock()
	defer mu.Unlock()
	for k, cl := range clients {
		if interface{}(cl.client) == c {
			return k.network, k.proxy, true
		}
	}
	return "", "", false
}
