package harness

import (
	"bytes"
	"fmt"
	"net"
	"net/netip"
	"reflect"
	"sort"

	"github.com/jech/storrent/pex"
	"github.com/jech/storrent/protocol"
	"github.com/jech/storrent/zzsim/refwire"
	"github.com/jech/storrent/zzsim/simrt"
)

// Generation of wire messages in both representations: storrent's
// (protocol.Message) and the independent reference codec's
// (refwire.Message plus typed extension payloads).

func drawU32(st *simrt.Stream) uint32 {
	switch st.Weighted(4, 2, 1, 1, 1, 2) {
	case 0:
		return uint32(st.Choice(64))
	case 1:
		return uint32(st.Choice(1 << 20))
	case 2:
		return 1<<31 - 1 + uint32(st.Choice(3))
	case 3:
		return ^uint32(0) - uint32(st.Choice(2))
	case 4:
		return uint32(st.Choice(1<<30)) << 2
	}
	return uint32(st.Choice(16)) * 16384
}

func drawBytes(st *simrt.Stream, n int) []byte {
	p := make([]byte, n)
	st.Fill(p)
	return p
}

func drawAddr(st *simrt.Stream, v6 bool) netip.Addr {
	if v6 {
		var a [16]byte
		st.Fill(a[:])
		if a[0] == 0 && a[10] == 0xff {
			a[0] = 0x20
		}
		if false { // v4-mapped
			copy(a[:12], []byte{0, 0, 0, 0, 0, 0, 0, 0, 0, 0, 0xff, 0xff})
		}
		return netip.AddrFrom16(a)
	}
	var a [4]byte
	st.Fill(a[:])
	return netip.AddrFrom4(a)
}

// wireMsg is one generated message in both representations.
type wireMsg struct {
	P    protocol.Message // what is handed to protocol.Write
	R    refwire.Message  // what the reference encoder is given
	Kind string
	// RoundTrip: storrent's own reader maps the message back to P (true
	// unless an extension sub-id differs from the ids storrent listens on)
	RoundTrip bool
}

var extNames = []string{"ut_metadata", "ut_pex", "lt_donthave", "upload_only", "ut_holepunch", "x"}

// genWireMsg draws a message that protocol.Write can emit.
func genWireMsg(st *simrt.Stream, maxData int) wireMsg {
	k := st.Weighted(2, 2, 2, 2, 2, 6, 4, 6, 8, 4, 2, 3, 2, 2, 4, 3, 6, 6, 5, 4)
	switch k {
	case 0:
		return wireMsg{protocol.KeepAlive{}, refwire.KeepAlive{}, "keepalive", true}
	case 1:
		return wireMsg{protocol.Choke{}, refwire.Choke{}, "choke", true}
	case 2:
		return wireMsg{protocol.Unchoke{}, refwire.Unchoke{}, "unchoke", true}
	case 3:
		return wireMsg{protocol.Interested{}, refwire.Interested{}, "interested", true}
	case 4:
		return wireMsg{protocol.NotInterested{}, refwire.NotInterested{}, "notinterested", true}
	case 5:
		v := drawU32(st)
		return wireMsg{protocol.Have{Index: v}, refwire.Have{Index: v}, "have", true}
	case 6:
		b := drawBytes(st, simrt.Pick(st, 1, 0, 2, 8, 9, 100, 1+st.Choice(4000)))
		return wireMsg{protocol.Bitfield{Bitfield: b}, refwire.Bitfield{Bits: b}, "bitfield", true}
	case 7:
		a, b, c := drawU32(st), drawU32(st), drawU32(st)
		return wireMsg{protocol.Request{Index: a, Begin: b, Length: c}, refwire.Request{Index: a, Begin: b, Length: c}, "request", true}
	case 8:
		a, b := drawU32(st), drawU32(st)
		n := simrt.Pick(st, 16384, 0, 1, 100, 16383, 16385, 32768)
		if n > maxData {
			n = maxData
		}
		if st.Bool(1, 20) && maxData >= 1<<20-9 {
			n = 1<<20 - 9 // the frame cap
		}
		d := drawBytes(st, n)
		return wireMsg{protocol.Piece{Index: a, Begin: b, Data: d}, refwire.Piece{Index: a, Begin: b, Data: bytes.Clone(d)}, "piece", true}
	case 9:
		a, b, c := drawU32(st), drawU32(st), drawU32(st)
		return wireMsg{protocol.Cancel{Index: a, Begin: b, Length: c}, refwire.Cancel{Index: a, Begin: b, Length: c}, "cancel", true}
	case 10:
		v := uint16(drawU32(st))
		return wireMsg{protocol.Port{Port: v}, refwire.Port{Port: v}, "port", true}
	case 11:
		v := drawU32(st)
		return wireMsg{protocol.SuggestPiece{Index: v}, refwire.SuggestPiece{Index: v}, "suggest", true}
	case 12:
		return wireMsg{protocol.HaveAll{}, refwire.HaveAll{}, "haveall", true}
	case 13:
		return wireMsg{protocol.HaveNone{}, refwire.HaveNone{}, "havenone", true}
	case 14:
		a, b, c := drawU32(st), drawU32(st), drawU32(st)
		return wireMsg{protocol.RejectRequest{Index: a, Begin: b, Length: c}, refwire.RejectRequest{Index: a, Begin: b, Length: c}, "reject", true}
	case 15:
		v := drawU32(st)
		return wireMsg{protocol.AllowedFast{Index: v}, refwire.AllowedFast{Index: v}, "allowedfast", true}
	case 16: // extended handshake
		var p protocol.Extended0
		var r refwire.ExtHandshake
		if st.Bool(2, 3) {
			p.Version = string(drawPrintable(st, st.Choice(40)))
			if p.Version != "" {
				r.V, r.HasV = p.Version, true
			}
		}
		if st.Bool(1, 2) {
			p.Port = uint16(1 + st.Choice(65535))
			r.P, r.HasP = int64(p.Port), true
		}
		if st.Bool(1, 2) {
			p.ReqQ = 1 + uint32(st.Choice(1<<30))
			if st.Bool(1, 5) {
				p.ReqQ = ^uint32(0)
			}
			r.Reqq, r.HasReqq = int64(p.ReqQ), true
		}
		if st.Bool(1, 3) {
			p.IPv4 = drawAddr(st, false)
			r.IPv4 = p.IPv4.AsSlice()
		}
		if st.Bool(1, 3) {
			a := drawAddr(st, true)
			if !a.Is4In6() {
				p.IPv6 = a
				r.IPv6 = p.IPv6.AsSlice()
			}
		}
		if st.Bool(1, 2) {
			p.MetadataSize = 1 + uint32(st.Choice(1<<24))
			r.MetadataSize, r.HasMetadataSize = int64(p.MetadataSize), true
		}
		if st.Bool(2, 3) {
			p.Messages = map[string]uint8{}
			r.M = map[string]int64{}
			for i := st.Choice(6); i > 0; i-- {
				n := extNames[st.Choice(len(extNames))]
				v := uint8(st.Choice(256))
				p.Messages[n] = v
				r.M[n] = int64(v)
			}
			if len(p.Messages) == 0 {
				p.Messages, r.M = nil, nil
			}
		}
		p.UploadOnly = st.Bool(1, 3)
		r.UploadOnly, r.HasUploadOnly = b2i(p.UploadOnly), true
		p.Encrypt = st.Bool(1, 3)
		if p.Encrypt {
			r.E, r.HasE = 1, true
		}
		return wireMsg{p, refwire.Extended{SubID: 0, Payload: refwire.EncodeExtHandshake(r)}, "ext-handshake", true}
	case 17: // ut_metadata
		sub := uint8(2)
		rt := true
		if st.Bool(1, 3) {
			sub = uint8(5 + st.Choice(251)) // an id storrent does not listen on
			rt = sub == 2
		}
		tp := uint8(st.Choice(3))
		piece := drawU32(st)
		var total uint32
		var data []byte
		if tp == 1 {
			total = 1 + uint32(st.Choice(1<<24))
			n := simrt.Pick(st, 16384, 1, 100, 16383)
			if n > maxData {
				n = maxData
			}
			data = drawBytes(st, n)
		}
		p := protocol.ExtendedMetadata{Subtype: sub, Type: tp, Piece: piece, TotalSize: total, Data: data}
		r := refwire.MetadataMsg{Type: int64(tp), Piece: int64(piece), TotalSize: int64(total), HasTotalSize: total > 0, Data: data}
		return wireMsg{p, refwire.Extended{SubID: sub, Payload: refwire.EncodeMetadata(r)}, "ext-metadata", rt}
	case 18: // ut_pex
		sub := uint8(1)
		rt := true
		if st.Bool(1, 3) {
			sub = uint8(5 + st.Choice(251)) // an id storrent does not listen on
			rt = sub == 1
		}
		var p protocol.ExtendedPex
		p.Subtype = sub
		var ra, rd []refwire.PexPeer
		for i := st.Choice(8); i > 0; i-- {
			a := netip.AddrPortFrom(drawAddr(st, st.Bool(1, 3)), uint16(st.Choice(65536)))
			f := byte(st.Choice(256))
			p.Added = append(p.Added, pex.Peer{Addr: a, Flags: f})
			ra = append(ra, refwire.PexPeer{IP: net.IP(a.Addr().AsSlice()), Port: a.Port(), Flags: f})
		}
		for i := st.Choice(5); i > 0; i-- {
			a := netip.AddrPortFrom(drawAddr(st, st.Bool(1, 3)), uint16(st.Choice(65536)))
			p.Dropped = append(p.Dropped, pex.Peer{Addr: a, Flags: byte(st.Choice(2))})
			rd = append(rd, refwire.PexPeer{IP: net.IP(a.Addr().AsSlice()), Port: a.Port()})
		}
		return wireMsg{p, refwire.Extended{SubID: sub, Payload: refwire.EncodePex(ra, rd)}, "ext-pex", rt}
	default: // lt_donthave
		sub := uint8(3)
		rt := true
		if st.Bool(1, 3) {
			sub = uint8(5 + st.Choice(251)) // an id storrent does not listen on
			rt = sub == 3
		}
		v := drawU32(st)
		return wireMsg{protocol.ExtendedDontHave{Subtype: sub, Index: v}, refwire.Extended{SubID: sub, Payload: refwire.EncodeDontHave(v)}, "ext-donthave", rt}
	}
}

func b2i(b bool) int64 {
	if b {
		return 1
	}
	return 0
}

func drawPrintable(st *simrt.Stream, n int) []byte {
	p := make([]byte, n)
	for i := range p {
		p[i] = byte(0x20 + st.Choice(95))
	}
	return p
}

// cloneMsg copies the payload buffers of a message (protocol.Write recycles
// the data buffer of a Piece).
func cloneMsg(m protocol.Message) protocol.Message {
	switch m := m.(type) {
	case protocol.Piece:
		m.Data = bytes.Clone(m.Data)
		return m
	}
	return m
}

// normPex orders a peer list the way the wire carries it: IPv4 first.
func normPex(l []pex.Peer, dropFlags bool) []pex.Peer {
	var v4, v6 []pex.Peer
	for _, p := range l {
		if dropFlags {
			p.Flags = 0
		}
		if p.Addr.Addr().Is4() {
			v4 = append(v4, p)
		} else {
			v6 = append(v6, p)
		}
	}
	return append(v4, v6...)
}

// sameProto compares a message decoded by storrent with the message that
// was sent, modulo the documented normalisations (nil vs empty, PEX order,
// flags of dropped peers are not carried).
func sameProto(got, want protocol.Message) (bool, string) {
	if reflect.TypeOf(got) != reflect.TypeOf(want) {
		return false, fmt.Sprintf("got %T, want %T", got, want)
	}
	switch w := want.(type) {
	case protocol.Bitfield:
		g := got.(protocol.Bitfield)
		if !bytes.Equal(g.Bitfield, w.Bitfield) {
			return false, "bitfield bytes differ"
		}
		return true, ""
	case protocol.Piece:
		g := got.(protocol.Piece)
		if g.Index != w.Index || g.Begin != w.Begin || !bytes.Equal(g.Data, w.Data) {
			return false, fmt.Sprintf("piece %d/%d/%d bytes vs %d/%d/%d bytes", g.Index, g.Begin, len(g.Data), w.Index, w.Begin, len(w.Data))
		}
		return true, ""
	case protocol.Extended0:
		g := got.(protocol.Extended0)
		if len(g.Messages) == 0 {
			g.Messages = nil
		}
		if len(w.Messages) == 0 {
			w.Messages = nil
		}
		if !reflect.DeepEqual(g, w) {
			return false, fmt.Sprintf("got %+v want %+v", g, w)
		}
		return true, ""
	case protocol.ExtendedMetadata:
		g := got.(protocol.ExtendedMetadata)
		if g.Subtype != w.Subtype || g.Type != w.Type || g.Piece != w.Piece || g.TotalSize != w.TotalSize || !bytes.Equal(g.Data, w.Data) {
			return false, fmt.Sprintf("got {%d %d %d %d %d bytes} want {%d %d %d %d %d bytes}", g.Subtype, g.Type, g.Piece, g.TotalSize, len(g.Data), w.Subtype, w.Type, w.Piece, w.TotalSize, len(w.Data))
		}
		return true, ""
	case protocol.ExtendedPex:
		g := got.(protocol.ExtendedPex)
		if g.Subtype != w.Subtype || !reflect.DeepEqual(normPex(g.Added, false), normPex(w.Added, false)) ||
			!reflect.DeepEqual(normPex(g.Dropped, true), normPex(w.Dropped, true)) {
			return false, fmt.Sprintf("got %+v want %+v", g, w)
		}
		// the wire order must be IPv4 first, exactly
		if len(g.Added) > 0 && !reflect.DeepEqual(g.Added, normPex(w.Added, false)) {
			return false, fmt.Sprintf("pex order: got %+v want %+v", g.Added, normPex(w.Added, false))
		}
		return true, ""
	}
	if !reflect.DeepEqual(got, want) {
		return false, fmt.Sprintf("got %+v want %+v", got, want)
	}
	return true, ""
}

// sameRef compares a message decoded by storrent (got) with a message
// decoded by the reference codec from the same frame.  comparable=false
// means the reference has no opinion (lenient-only payload it rejects).
func sameRef(got protocol.Message, ref refwire.Message) (same bool, comparable bool, why string) {
	bad := func(format string, a ...any) (bool, bool, string) { return false, true, fmt.Sprintf(format, a...) }
	switch r := ref.(type) {
	case refwire.KeepAlive:
		_, ok := got.(protocol.KeepAlive)
		return ok, true, fmt.Sprintf("got %T for keep-alive", got)
	case refwire.Choke:
		_, ok := got.(protocol.Choke)
		return ok, true, fmt.Sprintf("got %T for choke", got)
	case refwire.Unchoke:
		_, ok := got.(protocol.Unchoke)
		return ok, true, fmt.Sprintf("got %T for unchoke", got)
	case refwire.Interested:
		_, ok := got.(protocol.Interested)
		return ok, true, fmt.Sprintf("got %T for interested", got)
	case refwire.NotInterested:
		_, ok := got.(protocol.NotInterested)
		return ok, true, fmt.Sprintf("got %T for not-interested", got)
	case refwire.HaveAll:
		_, ok := got.(protocol.HaveAll)
		return ok, true, fmt.Sprintf("got %T for have-all", got)
	case refwire.HaveNone:
		_, ok := got.(protocol.HaveNone)
		return ok, true, fmt.Sprintf("got %T for have-none", got)
	case refwire.Have:
		g, ok := got.(protocol.Have)
		if !ok || g.Index != r.Index {
			return bad("got %#v for have %d", got, r.Index)
		}
	case refwire.SuggestPiece:
		g, ok := got.(protocol.SuggestPiece)
		if !ok || g.Index != r.Index {
			return bad("got %#v for suggest %d", got, r.Index)
		}
	case refwire.AllowedFast:
		g, ok := got.(protocol.AllowedFast)
		if !ok || g.Index != r.Index {
			return bad("got %#v for allowed-fast %d", got, r.Index)
		}
	case refwire.Bitfield:
		g, ok := got.(protocol.Bitfield)
		if !ok || !bytes.Equal(g.Bitfield, r.Bits) {
			return bad("got %T for bitfield of %d bytes", got, len(r.Bits))
		}
	case refwire.Request:
		g, ok := got.(protocol.Request)
		if !ok || g.Index != r.Index || g.Begin != r.Begin || g.Length != r.Length {
			return bad("got %#v for %#v", got, r)
		}
	case refwire.Cancel:
		g, ok := got.(protocol.Cancel)
		if !ok || g.Index != r.Index || g.Begin != r.Begin || g.Length != r.Length {
			return bad("got %#v for %#v", got, r)
		}
	case refwire.RejectRequest:
		g, ok := got.(protocol.RejectRequest)
		if !ok || g.Index != r.Index || g.Begin != r.Begin || g.Length != r.Length {
			return bad("got %#v for %#v", got, r)
		}
	case refwire.Piece:
		g, ok := got.(protocol.Piece)
		if !ok || g.Index != r.Index || g.Begin != r.Begin || !bytes.Equal(g.Data, r.Data) {
			return bad("got %T for piece %d/%d/%d bytes", got, r.Index, r.Begin, len(r.Data))
		}
	case refwire.Port:
		g, ok := got.(protocol.Port)
		if !ok || g.Port != r.Port {
			return bad("got %#v for port %d", got, r.Port)
		}
	case refwire.Unknown:
		if reflect.TypeOf(got).Name() != "Unknown" {
			return bad("got %T for unknown id %d", got, r.ID)
		}
		if id := uint8(reflect.ValueOf(got).Field(0).Uint()); id != r.ID {
			return bad("unknown id %d decoded as %d", r.ID, id)
		}
	case refwire.Extended:
		switch r.SubID {
		case 0:
			h, err := refwire.DecodeExtHandshake(r.Payload, false)
			g, ok := got.(protocol.Extended0)
			if !ok {
				return bad("got %T for an extended handshake", got)
			}
			if err != nil {
				return true, false, ""
			}
			// compare only fields whose reference value is in the range of storrent's types
			if h.HasV && g.Version != h.V {
				return bad("v: %q vs %q", g.Version, h.V)
			}
			if h.HasP && h.P >= 0 && h.P <= 65535 && int64(g.Port) != h.P {
				return bad("p: %d vs %d", g.Port, h.P)
			}
			if h.HasReqq && h.Reqq >= 0 && h.Reqq <= 1<<32-1 && int64(g.ReqQ) != h.Reqq {
				return bad("reqq: %d vs %d", g.ReqQ, h.Reqq)
			}
			if h.HasMetadataSize && h.MetadataSize >= 0 && h.MetadataSize <= 1<<32-1 && int64(g.MetadataSize) != h.MetadataSize {
				return bad("metadata_size: %d vs %d", g.MetadataSize, h.MetadataSize)
			}
			if len(h.IPv4) == 4 && (!g.IPv4.IsValid() || !bytes.Equal(g.IPv4.AsSlice(), h.IPv4)) {
				return bad("ipv4: %v vs %v", g.IPv4, h.IPv4)
			}
			if len(h.IPv6) == 16 && !bytes.Equal(h.IPv6[:12], []byte{0, 0, 0, 0, 0, 0, 0, 0, 0, 0, 0xff, 0xff}) && (!g.IPv6.IsValid() || !bytes.Equal(g.IPv6.AsSlice(), h.IPv6)) {
				return bad("ipv6: %v vs %v", g.IPv6, h.IPv6)
			}
			inRange := true
			for _, v := range h.M {
				if v < 0 || v > 255 {
					inRange = false
				}
			}
			if inRange {
				if len(g.Messages) != len(h.M) {
					return bad("m: %v vs %v", g.Messages, h.M)
				}
				for k, v := range h.M {
					if gv, ok := g.Messages[k]; !ok || int64(gv) != v {
						return bad("m[%s]: %v vs %v", k, g.Messages, h.M)
					}
				}
			}
			if h.HasUploadOnly && (h.UploadOnly == 0 || h.UploadOnly == 1) && g.UploadOnly != (h.UploadOnly == 1) {
				return bad("upload_only: %v vs %d", g.UploadOnly, h.UploadOnly)
			}
			if h.HasE && (h.E == 0 || h.E == 1) && g.Encrypt != (h.E == 1) {
				return bad("e: %v vs %d", g.Encrypt, h.E)
			}
		case protocol.ExtMetadata:
			mm, err := refwire.DecodeMetadata(r.Payload, false)
			g, ok := got.(protocol.ExtendedMetadata)
			if !ok {
				return bad("got %T for ut_metadata", got)
			}
			if err != nil || mm.Type < 0 || mm.Type > 255 || mm.Piece < 0 || mm.Piece > 1<<32-1 || mm.TotalSize < 0 || mm.TotalSize > 1<<32-1 {
				return true, false, ""
			}
			if int64(g.Type) != mm.Type || int64(g.Piece) != mm.Piece || (mm.HasTotalSize && int64(g.TotalSize) != mm.TotalSize) || !bytes.Equal(g.Data, mm.Data) {
				return bad("ut_metadata: got {%d %d %d %d bytes} ref {%d %d %d %d bytes}", g.Type, g.Piece, g.TotalSize, len(g.Data), mm.Type, mm.Piece, mm.TotalSize, len(mm.Data))
			}
		case protocol.ExtPex:
			a, d, err := refwire.DecodePex(r.Payload, true)
			g, ok := got.(protocol.ExtendedPex)
			if !ok {
				return bad("got %T for ut_pex", got)
			}
			if err != nil {
				return true, false, ""
			}
			if !samePexRef(g.Added, a, true) || !samePexRef(g.Dropped, d, false) {
				return bad("ut_pex: got %+v / %+v, ref %v / %v", g.Added, g.Dropped, a, d)
			}
		case protocol.ExtDontHave:
			idx, err := refwire.DecodeDontHave(r.Payload)
			g, ok := got.(protocol.ExtendedDontHave)
			if err != nil {
				return true, false, ""
			}
			if !ok || g.Index != idx {
				return bad("got %#v for lt_donthave %d", got, idx)
			}
		case protocol.ExtUploadOnly:
			v, err := refwire.DecodeUploadOnly(r.Payload, true)
			g, ok := got.(protocol.ExtendedUploadOnly)
			if err != nil {
				return true, false, ""
			}
			if !ok || g.Value != v {
				return bad("got %#v for upload_only %v", got, v)
			}
		default:
			g, ok := got.(protocol.ExtendedUnknown)
			if !ok || g.Subtype != r.SubID {
				return bad("got %#v for unknown extended sub-id %d", got, r.SubID)
			}
		}
	default:
		return true, false, ""
	}
	return true, true, ""
}

func samePexRef(g []pex.Peer, r []refwire.PexPeer, flags bool) bool {
	if len(g) != len(r) {
		return false
	}
	for i := range g {
		ip := r[i].IP
		if v4 := ip.To4(); v4 != nil && len(ip) == 4 {
			ip = v4
		}
		if !bytes.Equal(g[i].Addr.Addr().AsSlice(), []byte(ip)) || g[i].Addr.Port() != r[i].Port {
			return false
		}
		if flags && g[i].Flags != r[i].Flags {
			return false
		}
	}
	return true
}

func sortedKeys[V any](m map[string]V) []string {
	var ks []string
	for k := range m {
		ks = append(ks, k)
	}
	sort.Strings(ks)
	return ks
}
