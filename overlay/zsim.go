// Added to package runtime by /verif's build overlay (go1.26.8 only).
// It makes the poll order of select statements executed inside a
// testing/synctest bubble a pure function of a seed owned by the
// simulator, and exposes the goroutine id and bubble membership.
// Outside a bubble nothing changes.

package runtime

import _ "unsafe"

var (
	simSelectMode  uint32 // 0: off (runtime default); 1: on
	simSelectState uint64 // 0: identity order (first ready case in source order wins); else splitmix64 state
)

func simselectn(n uint32) uint32 {
	if simSelectMode == 0 || getg().bubble == nil {
		return cheaprandn(n)
	}
	if simSelectState == 0 {
		return n - 1
	}
	simSelectState += 0x9e3779b97f4a7c15
	z := simSelectState
	z = (z ^ (z >> 30)) * 0xbf58476d1ce4e5b9
	z = (z ^ (z >> 27)) * 0x94d049bb133111eb
	z ^= z >> 31
	if simSelectState == 0 {
		simSelectState = 1
	}
	return uint32((uint64(uint32(z>>32)) * uint64(n)) >> 32)
}

// SimSetSelect sets the select poll-order generator: on=false restores
// the runtime's own generator; seed 0 means identity order.
//
//go:linkname simSetSelect
func simSetSelect(on bool, seed uint64) {
	if on {
		simSelectMode = 1
	} else {
		simSelectMode = 0
	}
	simSelectState = seed
}

//go:linkname simGoid
func simGoid() uint64 {
	return getg().goid
}

//go:linkname simInBubble
func simInBubble() bool {
	return getg().bubble != nil
}

// simRun and simWait expose the synctest bubble primitives directly, so the
// simulator does not need a *testing.T per run.
//
//go:linkname simRun
func simRun(f func()) {
	synctestRun(f)
}

//go:linkname simWait
func simWait() {
	synctestWait()
}
