package harness

import (
	"bytes"
	"errors"
	"fmt"
	"io"
	"net"
	"os"
	"time"

	"github.com/jech/storrent/crypto"
	"github.com/jech/storrent/hash"
	"github.com/jech/storrent/protocol"
	"github.com/jech/storrent/zzsim/refmse"
	"github.com/jech/storrent/zzsim/refwire"
	"github.com/jech/storrent/zzsim/simnet"
	"github.com/jech/storrent/zzsim/simrt"
)

// Handshake scenarios: C07 (outcome independent of segmentation, both ends
// agree, glued bytes delivered once) and C08 (policy table, interop with an
// independent MSE implementation, transparency of the encrypted stream).

func init() {
	Register(&Scenario{
		Name: "handshake", Props: []string{"C07"}, CrashTo: "C07",
		Horizon: time.Hour, MaxSteps: 400000, Weight: 1, Main: handshakeMain,
	})
	Register(&Scenario{
		Name: "crypto-policy", Props: []string{"C08"}, CrashTo: "C08",
		Horizon: time.Hour, MaxSteps: 400000, Weight: 2, Main: cryptoPolicyMain,
	})
	Register(&Scenario{
		Name: "crypto-stream", Props: []string{"C08"}, CrashTo: "C08",
		Horizon: time.Hour, MaxSteps: 400000, Weight: 1, Main: cryptoStreamMain,
	})
}

type hsOutcome struct {
	Role      string
	OK        bool
	Err       string
	Hash      []byte
	PeerID    []byte // the id the other side presented
	Dht       bool
	Fast      bool
	Ext       bool
	Encrypted bool
	Early     []byte // bytes received after the handshake
	Extra     int    // bytes received beyond what the peer sent
	EarlyErr  string
	conn      net.Conn
}

func (o hsOutcome) tuple() string {
	if !o.OK {
		return "failed"
	}
	return fmt.Sprintf("ok hash=%x peer=%x dht=%v fast=%v ext=%v enc=%v early=%x extra=%d earlyErr=%q", o.Hash, o.PeerID, o.Dht, o.Fast, o.Ext, o.Encrypted, sha1sum(o.Early), o.Extra, o.EarlyErr)
}

func optBits(o *crypto.Options) int {
	b := 0
	for i, f := range []bool{o.AllowCryptoHandshake, o.PreferCryptoHandshake, o.ForceCryptoHandshake, o.AllowEncryption, o.PreferEncryption, o.ForceEncryption} {
		if f {
			b |= 1 << i
		}
	}
	return b
}

func optFromBits(b int) *crypto.Options {
	return &crypto.Options{
		AllowCryptoHandshake: b&1 != 0, PreferCryptoHandshake: b&2 != 0, ForceCryptoHandshake: b&4 != 0,
		AllowEncryption: b&8 != 0, PreferEncryption: b&16 != 0, ForceEncryption: b&32 != 0,
	}
}

func optString(o *crypto.Options) string {
	s := ""
	for i, f := range []bool{o.AllowCryptoHandshake, o.PreferCryptoHandshake, o.ForceCryptoHandshake, o.AllowEncryption, o.PreferEncryption, o.ForceEncryption} {
		if f {
			s += []string{"aH", "pH", "fH", "aE", "pE", "fE"}[i]
		} else {
			s += "--"
		}
	}
	return s
}

// hsPlan is everything that defines one handshake experiment except the
// segmentation.
type hsPlan struct {
	clientKind, serverKind string // "storrent" or "ref"
	mse                    bool   // the client starts with the MSE handshake
	copt, sopt             *crypto.Options
	infoHash               []byte
	otherHashes            [][]byte // further torrents the server knows
	cid, sid               []byte
	cseed, sseed           uint64
	earlyC, earlyS         []byte
	// reference client parameters
	refPad, refPadC int
	refProvide      uint32
	refIAMode       int // 0: IA = handshake; 1: empty IA, handshake sent after; 2: IA = handshake + early bytes; 3: IA = first part of the handshake
	refGlue         bool
	refReserved     [8]byte
	// reference server parameters
	refSelect         uint32 // 0: default choice
	refSelectVerbatim bool   // send refSelect whatever the client offered
}

func drawHsPlan(st *simrt.Stream, kinds int) *hsPlan {
	p := &hsPlan{}
	switch kinds {
	case 0:
		p.clientKind, p.serverKind = "storrent", "storrent"
	case 1:
		p.clientKind, p.serverKind = "storrent", "ref"
	default:
		p.clientKind, p.serverKind = "ref", "storrent"
	}
	p.mse = st.Bool(2, 3)
	// option sets: mostly the ones DefaultOptions produces, sometimes any
	pick := func() *crypto.Options {
		switch st.Weighted(3, 3, 2, 2) {
		case 0:
			return crypto.DefaultOptions(false, false)
		case 1:
			return crypto.DefaultOptions(true, false)
		case 2:
			return crypto.DefaultOptions(true, true)
		}
		return optFromBits(st.Choice(64))
	}
	p.copt, p.sopt = pick(), pick()
	p.infoHash = drawBytes(st, 20)
	for i := st.Choice(3); i > 0; i-- {
		p.otherHashes = append(p.otherHashes, drawBytes(st, 20))
	}
	p.cid, p.sid = drawBytes(st, 20), drawBytes(st, 20)
	p.cseed, p.sseed = uint64(st.Choice(1<<30)), uint64(st.Choice(1<<30))
	p.earlyC = drawBytes(st, simrt.Pick(st, 0, 1, 5, 68, 300, 1+st.Choice(4096)))
	p.earlyS = drawBytes(st, simrt.Pick(st, 0, 1, 5, 68, 300, 1+st.Choice(4096)))
	p.refPad = simrt.Pick(st, 0, 512, 1, 511, st.Choice(513))
	p.refPadC = simrt.Pick(st, 0, 512, 1, st.Choice(513))
	p.refProvide = uint32(simrt.Pick(st, 3, 2, 1))
	p.refIAMode = st.Weighted(4, 2, 2, 1)
	p.refGlue = st.Bool(1, 2)
	st.Fill(p.refReserved[:])
	if st.Bool(2, 3) {
		p.refReserved = [8]byte{0, 0, 0, 0, 0, 0x10, 0, 0x05}
	}
	p.refSelect = uint32(simrt.Pick(st, 0, 2, 1))
	return p
}

// readEarly reads exactly want bytes from init++conn, then checks that
// nothing else arrives for a while.
func readEarly(conn io.Reader, dl interface{ SetReadDeadline(time.Time) error }, init []byte, want int, out *hsOutcome) {
	got := append([]byte(nil), init...)
	buf := make([]byte, 700)
	for len(got) < want {
		dl.SetReadDeadline(time.Now().Add(2 * time.Minute))
		n, err := conn.Read(buf)
		got = append(got, buf[:n]...)
		if err != nil {
			out.EarlyErr = "short"
			break
		}
	}
	if len(got) >= want {
		out.Extra = len(got) - want
		dl.SetReadDeadline(time.Now().Add(300 * time.Millisecond))
		n, _ := conn.Read(buf)
		out.Extra += n
		got = got[:want]
	}
	out.Early = got
}

type rwDeadline struct {
	io.ReadWriter
	c net.Conn
}

func (r rwDeadline) SetReadDeadline(t time.Time) error { return r.c.SetReadDeadline(t) }

func hsClient(p *hsPlan, c *simnet.Conn, out *hsOutcome) {
	out.Role = "client"
	simrt.SetRand(simrt.NewRaw(p.cseed))
	if p.clientKind == "storrent" {
		conn, res, init, err := protocol.ClientHandshake(c, p.mse, hash.Hash(p.infoHash), hash.Hash(p.cid), p.copt)
		if err != nil {
			out.Err = err.Error()
			c.Close()
			return
		}
		out.OK = true
		out.conn = conn
		out.Hash, out.PeerID = bytes.Clone(res.Hash), bytes.Clone(res.Id)
		out.Dht, out.Fast, out.Ext = res.Dht, res.Fast, res.Extended
		_, out.Encrypted = conn.(*crypto.Conn)
		conn.SetDeadline(time.Time{})
		if len(p.earlyC) > 0 {
			conn.Write(p.earlyC)
		}
		readEarly(conn, conn, init, len(p.earlyS), out)
		return
	}
	// reference client
	rnd := simrt.NewRaw(p.cseed ^ 0x51)
	var hs refwire.Handshake
	hs.Reserved = p.refReserved
	copy(hs.InfoHash[:], p.infoHash)
	copy(hs.PeerID[:], p.cid)
	hsb := hs.Bytes()
	var rw io.ReadWriter = c
	earlySent := false
	if p.mse {
		ia := hsb
		switch p.refIAMode {
		case 1:
			ia = nil
		case 2:
			ia = append(bytes.Clone(hsb), p.earlyC...)
			earlySent = true
		case 3:
			ia = hsb[:1+int(p.cseed%67)]
		}
		if len(ia) > 65535 {
			ia = ia[:65535]
		}
		res, err := refmse.Initiate(c, refmse.Options{Rand: rnd, Provide: p.refProvide, PadLen: p.refPad, PadCLen: p.refPadC, IA: ia, SKeys: [][]byte{p.infoHash}})
		if err != nil {
			out.Err = "mse: " + err.Error()
			c.Close()
			return
		}
		rw = res.RW
		out.Encrypted = res.Selected == refmse.CryptoRC4
		if len(ia) < len(hsb) {
			rest := hsb[len(ia):]
			if p.refGlue && !earlySent {
				rest = append(bytes.Clone(rest), p.earlyC...)
				earlySent = true
			}
			if _, err := rw.Write(rest); err != nil {
				out.Err = "write: " + err.Error()
				c.Close()
				return
			}
		}
	} else {
		b := hsb
		if p.refGlue {
			b = append(bytes.Clone(hsb), p.earlyC...)
			earlySent = true
		}
		if _, err := c.Write(b); err != nil {
			out.Err = "write: " + err.Error()
			c.Close()
			return
		}
	}
	c.SetReadDeadline(time.Now().Add(2 * time.Minute))
	reply := make([]byte, 68)
	if _, err := io.ReadFull(rw, reply); err != nil {
		out.Err = "reading the reply: " + err.Error()
		c.Close()
		return
	}
	rh, err := refwire.ParseHandshake(reply)
	if err != nil {
		out.Err = "reply: " + err.Error()
		c.Close()
		return
	}
	out.OK = true
	out.conn = c
	out.Hash, out.PeerID = bytes.Clone(rh.InfoHash[:]), bytes.Clone(rh.PeerID[:])
	out.Dht, out.Fast, out.Ext = rh.DHT(), rh.Fast(), rh.Extended()
	if !earlySent && len(p.earlyC) > 0 {
		rw.Write(p.earlyC)
	}
	readEarly(rw, rwDeadline{rw, c}, nil, len(p.earlyS), out)
}

func hsServer(p *hsPlan, c *simnet.Conn, out *hsOutcome) {
	out.Role = "server"
	simrt.SetRand(simrt.NewRaw(p.sseed))
	if p.serverKind == "storrent" {
		pairs := []hash.HashPair{}
		for _, h := range p.otherHashes {
			pairs = append(pairs, hash.HashPair{First: hash.Hash(h), Second: hash.Hash(bytes.Repeat([]byte{9}, 20))})
		}
		at := 0
		if len(pairs) > 0 {
			at = int(p.sseed % uint64(len(pairs)+1))
		}
		pairs = append(pairs[:at], append([]hash.HashPair{{First: hash.Hash(p.infoHash), Second: hash.Hash(p.sid)}}, pairs[at:]...)...)
		conn, res, init, err := protocol.ServerHandshake(c, pairs, p.sopt)
		if err != nil {
			out.Err = err.Error()
			c.Close()
			return
		}
		out.OK = true
		out.conn = conn
		out.Hash, out.PeerID = bytes.Clone(res.Hash), bytes.Clone(res.Id)
		out.Dht, out.Fast, out.Ext = res.Dht, res.Fast, res.Extended
		_, out.Encrypted = conn.(*crypto.Conn)
		conn.SetDeadline(time.Time{})
		if len(p.earlyS) > 0 {
			conn.Write(p.earlyS)
		}
		readEarly(conn, conn, init, len(p.earlyC), out)
		return
	}
	// reference server
	rnd := simrt.NewRaw(p.sseed ^ 0x52)
	c.SetReadDeadline(time.Now().Add(2 * time.Minute))
	var rw io.ReadWriter = c
	var got []byte
	if p.mse {
		opts := refmse.Options{Rand: rnd, PadLen: p.refPad, PadCLen: p.refPadC, SKeys: append([][]byte{p.infoHash}, p.otherHashes...)}
		if p.refSelect != 0 {
			sel := p.refSelect
			verbatim := p.refSelectVerbatim
			opts.Select = func(provide uint32) uint32 {
				if verbatim {
					return sel
				}
				if provide&sel != 0 {
					return sel
				}
				if provide&2 != 0 {
					return 2
				}
				return provide & 1
			}
		}
		res, err := refmse.Respond(c, opts)
		if err != nil {
			out.Err = "mse: " + err.Error()
			c.Close()
			return
		}
		rw = res.RW
		got = res.IA
		out.Encrypted = res.Selected == refmse.CryptoRC4
	}
	for len(got) < 68 {
		buf := make([]byte, 68-len(got))
		n, err := rw.Read(buf)
		got = append(got, buf[:n]...)
		if err != nil {
			out.Err = "reading the handshake: " + err.Error()
			c.Close()
			return
		}
	}
	ch, err := refwire.ParseHandshake(got[:68])
	if err != nil || !bytes.Equal(ch.InfoHash[:], p.infoHash) {
		out.Err = fmt.Sprintf("client handshake: %v", err)
		c.Close()
		return
	}
	var hs refwire.Handshake
	hs.Reserved = p.refReserved
	copy(hs.InfoHash[:], p.infoHash)
	copy(hs.PeerID[:], p.sid)
	b := hs.Bytes()
	sent := false
	if p.refGlue {
		b = append(b, p.earlyS...)
		sent = true
	}
	if _, err := rw.Write(b); err != nil {
		out.Err = "write: " + err.Error()
		c.Close()
		return
	}
	out.OK = true
	out.conn = c
	out.Hash, out.PeerID = bytes.Clone(ch.InfoHash[:]), bytes.Clone(ch.PeerID[:])
	out.Dht, out.Fast, out.Ext = ch.DHT(), ch.Fast(), ch.Extended()
	if !sent && len(p.earlyS) > 0 {
		rw.Write(p.earlyS)
	}
	readEarly(rw, rwDeadline{rw, c}, got[68:], len(p.earlyC), out)
}

type hsTap struct{ c2s, s2c []byte }

// runHandshake executes one experiment under the given segmentation.
func runHandshake(p *hsPlan, ab, ba simnet.LinkCfg, tag string) (cl, sv hsOutcome, tap *hsTap) {
	cc, sc := simnet.Pipe(simnet.TCPAddr("10.1.0.1", 40001), simnet.TCPAddr("80.2.0.2", 6881), ab, ba)
	tap = &hsTap{}
	cc.TapOut(func(b []byte) { tap.c2s = append(tap.c2s, b...) })
	sc.TapOut(func(b []byte) { tap.s2c = append(tap.s2c, b...) })
	j := &Join{n: 2}
	simrt.GoNamed("hs-client-"+tag, func() { defer j.Done(); hsClient(p, cc, &cl) })
	simrt.GoNamed("hs-server-"+tag, func() { defer j.Done(); hsServer(p, sc, &sv) })
	j.Wait()
	cc.Close()
	sc.Close()
	return
}

func drawHsLink(st *simrt.Stream, streamGuess int) simnet.LinkCfg {
	var c simnet.LinkCfg
	switch st.Weighted(2, 3, 3, 3, 3, 3) {
	case 0:
		c.Seg = simnet.SegWhole
	case 1:
		c.Seg = simnet.SegCoalesce
	case 2:
		c.Seg = simnet.SegRandom
	case 3:
		c.Seg = simnet.SegBytes
	case 4:
		c.Seg = simnet.SegCutAt
		c.CutAt = 1 + st.Choice(streamGuess)
	case 5:
		c.Seg = simnet.SegSmall
	}
	c.Latency = time.Duration(simrt.Pick(st, 0, 1, 30)) * time.Millisecond
	if st.Bool(1, 4) {
		c.Jitter = time.Duration(1+st.Choice(20)) * time.Millisecond
	}
	simrt.Fault(fmt.Sprintf("segmentation-%d", c.Seg))
	return c
}

func sha1sum(b []byte) []byte {
	h := hash.Hash(nil)
	_ = h
	s := simrt.Mix(uint64(len(b)), 7)
	for i, x := range b {
		s = simrt.Mix(s^uint64(x), uint64(i))
	}
	return []byte(fmt.Sprintf("%016x", s))
}

// ---- C07 ---------------------------------------------------------------------------

func handshakeMain(rc *RunCtx) {
	st := rc.St
	p := drawHsPlan(st, st.Choice(3))
	rc.SetSample("plan", fmt.Sprintf("%s client (%s) -> %s server (%s), mse=%v, early %d/%d bytes, ref pad=%d padC=%d provide=%d iaMode=%d glue=%v",
		p.clientKind, optString(p.copt), p.serverKind, optString(p.sopt), p.mse, len(p.earlyC), len(p.earlyS), p.refPad, p.refPadC, p.refProvide, p.refIAMode, p.refGlue))
	// reference execution: every write delivered whole, no delay
	cl0, sv0, _ := runHandshake(p, simnet.LinkCfg{}, simnet.LinkCfg{}, "whole")
	rc.Tracef("whole-write delivery: client %s (%s); server %s (%s)", cl0.tuple(), cl0.Err, sv0.tuple(), sv0.Err)
	ab := drawHsLink(st, 900)
	ba := drawHsLink(st, 900)
	rc.SetSample("segmentation", fmt.Sprintf("c->s seg=%d cut=%d lat=%v jit=%v; s->c seg=%d cut=%d lat=%v jit=%v", ab.Seg, ab.CutAt, ab.Latency, ab.Jitter, ba.Seg, ba.CutAt, ba.Latency, ba.Jitter))
	cl1, sv1, _ := runHandshake(p, ab, ba, "cut")
	rc.Tracef("segmented delivery:   client %s (%s); server %s (%s)", cl1.tuple(), cl1.Err, sv1.tuple(), sv1.Err)
	if cl0.OK && sv0.OK {
		rc.Progress()
	}
	class := fmt.Sprintf("%s-%s-mse=%v", p.clientKind, p.serverKind, p.mse)
	if p.clientKind == "storrent" && cl0.tuple() != cl1.tuple() {
		rc.Fail("C07", "segmentation-dependence", class+"-client", "storrent client: whole-write delivery gives %q (%s) but segmentation [%v] gives %q (%s)", cl0.tuple(), cl0.Err, rc.sample["segmentation"], cl1.tuple(), cl1.Err)
	}
	if p.serverKind == "storrent" && sv0.tuple() != sv1.tuple() {
		rc.Fail("C07", "segmentation-dependence", class+"-server", "storrent server: whole-write delivery gives %q (%s) but segmentation [%v] gives %q (%s)", sv0.tuple(), sv0.Err, rc.sample["segmentation"], sv1.tuple(), sv1.Err)
	}
	for _, pair := range [][2]*hsOutcome{{&cl0, &sv0}, {&cl1, &sv1}} {
		cl, sv := pair[0], pair[1]
		if cl.OK != sv.OK {
			// one end completed, the other did not: for the storrent end
			// that is only legal if the other end failed *after* the
			// handshake bytes were exchanged (it cannot know); the
			// reference ends apply stricter checks (e.g. info-hash), so
			// only storrent<->storrent is judged
			if p.clientKind == "storrent" && p.serverKind == "storrent" {
				// the server finishes first (it does not wait for anything
				// after the peer id), the client may still refuse the
				// server's reply: only "client ok, server failed" is wrong
				if cl.OK && !sv.OK {
					rc.Fail("C07", "agreement", "one-sided", "client completed (%s) but server failed: %s", cl.tuple(), sv.Err)
				}
			}
			// a conforming independent server (default selection) that
			// completed with a storrent client running one of the default
			// option sets: the client has no reason to refuse its reply
			if p.clientKind == "storrent" && p.serverKind == "ref" && sv.OK && !cl.OK && p.mse && p.refSelect == 0 {
				for _, d := range []*crypto.Options{crypto.DefaultOptions(false, false), crypto.DefaultOptions(true, false), crypto.DefaultOptions(true, true)} {
					if *d == *p.copt {
						rc.Fail("C07", "agreement", "one-sided-ref", "a conforming independent MSE server completed the handshake (pad D of %d bytes), the storrent client (%s) failed: %s", p.refPadC, optString(p.copt), cl.Err)
						break
					}
				}
			}
			continue
		}
		if !cl.OK {
			continue
		}
		if !bytes.Equal(cl.Hash, p.infoHash) || !bytes.Equal(sv.Hash, p.infoHash) {
			rc.Fail("C07", "agreement", "info-hash", "info-hash: client %x server %x plan %x", cl.Hash, sv.Hash, p.infoHash)
		}
		if !bytes.Equal(cl.PeerID, p.sid) || !bytes.Equal(sv.PeerID, p.cid) {
			rc.Fail("C07", "agreement", "peer-id", "peer ids: client saw %x (server is %x), server saw %x (client is %x)", cl.PeerID, p.sid, sv.PeerID, p.cid)
		}
		if cl.Encrypted != sv.Encrypted {
			rc.Fail("C07", "agreement", "cipher", "cipher mode: client encrypted=%v server encrypted=%v", cl.Encrypted, sv.Encrypted)
		}
		// capability bits: what each storrent end reports is what the other end sent
		if p.clientKind == "storrent" && p.serverKind == "ref" {
			var h refwire.Handshake
			h.Reserved = p.refReserved
			if cl.Dht != h.DHT() || cl.Fast != h.Fast() || cl.Ext != h.Extended() {
				rc.Fail("C07", "agreement", "capabilities", "client reports dht=%v fast=%v ext=%v for reserved bytes %x", cl.Dht, cl.Fast, cl.Ext, p.refReserved)
			}
		}
		if p.serverKind == "storrent" && p.clientKind == "ref" {
			var h refwire.Handshake
			h.Reserved = p.refReserved
			if sv.Dht != h.DHT() || sv.Fast != h.Fast() || sv.Ext != h.Extended() {
				rc.Fail("C07", "agreement", "capabilities", "server reports dht=%v fast=%v ext=%v for reserved bytes %x", sv.Dht, sv.Fast, sv.Ext, p.refReserved)
			}
		}
		// stream continuity
		if !bytes.Equal(cl.Early, p.earlyS) || cl.Extra != 0 {
			rc.Fail("C07", "continuity", p.clientKind+"-client", "client received %d bytes after the handshake (+%d stray), server had written %d; equal=%v err=%q", len(cl.Early), cl.Extra, len(p.earlyS), bytes.Equal(cl.Early, p.earlyS), cl.EarlyErr)
		}
		if !bytes.Equal(sv.Early, p.earlyC) || sv.Extra != 0 {
			rc.Fail("C07", "continuity", p.serverKind+"-server", "server received %d bytes after the handshake (+%d stray), client had written %d; equal=%v err=%q", len(sv.Early), sv.Extra, len(p.earlyC), bytes.Equal(sv.Early, p.earlyC), sv.EarlyErr)
		}
	}
}

// ---- C08 A: policy ------------------------------------------------------------------

// Independent statement of the policy: what an end permits.
func permitsPlainPayload(o *crypto.Options) bool   { return !o.ForceEncryption }
func permitsRC4Payload(o *crypto.Options) bool     { return o.AllowEncryption }
func permitsPlainHandshake(o *crypto.Options) bool { return !o.ForceCryptoHandshake }
func permitsMSEHandshake(o *crypto.Options) bool   { return o.AllowCryptoHandshake }

func cryptoPolicyMain(rc *RunCtx) {
	st := rc.St
	// The configuration table (64 x 64 option pairs x handshake kind) is
	// enumerated by run index for storrent<->storrent: 3 of every 5 runs
	// walk the 8192 cells in order; the other 2 pit storrent against the
	// reference peer with drawn options.
	kinds := 0
	cell := -1
	if k := rc.Index % 5; k < 3 {
		cell = ((rc.Index/5)*3 + k) % 8192
	} else {
		kinds = 1 + st.Choice(2)
	}
	p := drawHsPlan(st, kinds)
	p.copt = optFromBits(st.Choice(64))
	p.sopt = optFromBits(st.Choice(64))
	if cell >= 0 {
		p.copt = optFromBits(cell % 64)
		p.sopt = optFromBits(cell / 64 % 64)
		p.mse = cell/4096 == 1
		simrt.Probe("policy-table-cell")
	}
	if len(p.earlyC) < 24 {
		p.earlyC = drawBytes(st, 24+st.Choice(100))
	}
	if len(p.earlyS) < 24 {
		p.earlyS = drawBytes(st, 24+st.Choice(100))
	}
	if kinds != 0 {
		// against the reference peer: every crypto_provide / crypto_select value
		p.refProvide = uint32(simrt.Pick(st, 3, 0, 1, 2, 4, 5, 6, 7, 8, 0xffffffff))
		p.refSelect = uint32(simrt.Pick(st, 0, 1, 2, 3, 4, 7))
		p.refSelectVerbatim = p.refSelect != 0 && st.Bool(1, 2)
		p.mse = true
		if st.Bool(1, 2) {
			// half of these runs are plain interoperability: one of the
			// default option sets on the storrent end, a reference peer
			// that offers both methods and selects by default or, verbatim,
			// a method the client offered (the other half tries everything)
			so := simrt.Pick(st, crypto.DefaultOptions(false, false), crypto.DefaultOptions(true, false), crypto.DefaultOptions(true, true))
			if p.serverKind == "storrent" {
				p.sopt = so
			} else {
				p.copt = so
			}
			p.refProvide = 3
			p.refSelect, p.refSelectVerbatim = 0, false
			if p.serverKind == "ref" && st.Bool(1, 2) {
				if !so.ForceEncryption && st.Bool(1, 2) {
					p.refSelect, p.refSelectVerbatim = 1, true
				} else if so.AllowEncryption {
					p.refSelect, p.refSelectVerbatim = 2, true
				}
			}
			simrt.Probe("interoperability-run")
		}
	}
	ab := drawHsLink(st, 900)
	ba := drawHsLink(st, 900)
	rc.SetSample("cell", fmt.Sprintf("%s client %s (bits %d) -> %s server %s (bits %d), mse-first=%v provide=%d select=%d", p.clientKind, optString(p.copt), optBits(p.copt), p.serverKind, optString(p.sopt), optBits(p.sopt), p.mse, p.refProvide, p.refSelect))
	cl, sv, tap := runHandshake(p, ab, ba, "cell")
	rc.Tracef("client: %s (%s); server: %s (%s)", cl.tuple(), cl.Err, sv.tuple(), sv.Err)
	class := fmt.Sprintf("%s-%s", p.clientKind, p.serverKind)
	judge := func(who string, o *crypto.Options, out *hsOutcome) {
		if !out.OK {
			return
		}
		rc.Progress()
		if out.Encrypted && !permitsRC4Payload(o) {
			rc.Fail("C08", "policy", class+"-rc4-not-allowed", "%s (%s) completed an RC4 connection although it does not allow encryption", who, optString(o))
		}
		if !out.Encrypted && !permitsPlainPayload(o) {
			rc.Fail("C08", "policy", class+"-plain-though-forced", "%s (%s) completed a plaintext connection although it forces encryption (mse-first=%v)", who, optString(o), p.mse)
		}
		if p.mse && !permitsMSEHandshake(o) {
			rc.Fail("C08", "policy", class+"-mse-handshake-not-allowed", "%s (%s) completed an MSE handshake although it does not allow it", who, optString(o))
		}
		if !p.mse && !permitsPlainHandshake(o) {
			rc.Fail("C08", "policy", class+"-plain-handshake-though-forced", "%s (%s) completed a plaintext handshake although it forces the MSE handshake", who, optString(o))
		}
	}
	if p.clientKind == "storrent" {
		judge("client", p.copt, &cl)
	}
	if p.serverKind == "storrent" {
		judge("server", p.sopt, &sv)
	}
	if cl.OK && sv.OK {
		if cl.Encrypted != sv.Encrypted {
			rc.Fail("C08", "mode-agreement", class, "client encrypted=%v, server encrypted=%v", cl.Encrypted, sv.Encrypted)
		}
		// the wire: payload bytes appear in clear iff the mode is plaintext
		probe := func(name string, wire, payload []byte, enc bool) {
			if len(payload) < 16 {
				return
			}
			inClear := bytes.Contains(wire, payload[:16])
			if enc && inClear {
				rc.Fail("C08", "wire", class+"-clear-in-rc4-mode", "%s payload appears unencrypted on the wire of a connection both ends report as RC4", name)
			}
			if !enc && !inClear {
				rc.Fail("C08", "wire", class+"-not-clear-in-plain-mode", "%s payload does not appear on the wire of a connection both ends report as plaintext", name)
			}
		}
		if p.clientKind == "ref" && p.mse && p.refIAMode == 2 {
			// the early bytes travelled inside IA, which MSE always encrypts
		} else {
			probe("client", tap.c2s, p.earlyC, cl.Encrypted)
		}
		probe("server", tap.s2c, p.earlyS, sv.Encrypted)
		// transparency end to end
		if !bytes.Equal(cl.Early, p.earlyS) || cl.Extra != 0 || !bytes.Equal(sv.Early, p.earlyC) || sv.Extra != 0 {
			rc.Fail("C08", "transparency", class, "payload after the handshake differs: client got %d/%d (+%d), server got %d/%d (+%d)", len(cl.Early), len(p.earlyS), cl.Extra, len(sv.Early), len(p.earlyC), sv.Extra)
		}
	}
	// a client that offered nothing acceptable must not be accepted; a
	// select the client did not offer must not be accepted
	if p.clientKind == "ref" && sv.OK && p.mse {
		if p.refProvide&3 == 0 {
			rc.Fail("C08", "provide", "none-acceptable", "server accepted crypto_provide=%#x", p.refProvide)
		}
	}
	if p.serverKind == "ref" && cl.OK && p.mse && p.refSelectVerbatim {
		// the client offers plaintext iff it does not force encryption and
		// RC4 iff it allows encryption; it must refuse any other selection
		offered := uint32(0)
		if !p.copt.ForceEncryption {
			offered |= 1
		}
		if p.copt.AllowEncryption {
			offered |= 2
		}
		sel := p.refSelect
		if (sel != 1 && sel != 2) || offered&sel == 0 {
			rc.Fail("C08", "select", "not-offered", "client (%s, offers %#x) accepted crypto_select=%#x", optString(p.copt), offered, sel)
		}
	}
	// interoperability: with default options on the storrent end and a
	// conforming reference peer offering both methods, the connection works
	if kinds != 0 {
		so := p.copt
		if p.serverKind == "storrent" {
			so = p.sopt
		}
		isDefault := false
		for _, d := range []*crypto.Options{crypto.DefaultOptions(false, false), crypto.DefaultOptions(true, false), crypto.DefaultOptions(true, true)} {
			if *d == *so {
				isDefault = true
			}
		}
		// the reference server may also pick, verbatim, any method the
		// client did offer (plaintext when it does not force encryption,
		// RC4 when it allows it): that is a conforming peer too
		selOK := p.refSelect == 0
		if p.serverKind == "ref" && p.refSelectVerbatim && ((p.refSelect == 1 && !so.ForceEncryption) || (p.refSelect == 2 && so.AllowEncryption)) {
			selOK = true
		}
		if isDefault && p.refProvide == 3 && selOK && p.mse && (!cl.OK || !sv.OK) {
			rc.Fail("C08", "interop", class, "storrent (%s) and a conforming independent MSE peer (crypto_select %d) failed to connect: client %q server %q", optString(so), p.refSelect, cl.Err, sv.Err)
		}
	}
}

// ---- C08 C: transparency of crypto.Conn -------------------------------------------------

type shortWriter struct {
	net.Conn
	st        *simrt.Stream
	shortDen  int
	failAfter int
	written   int
	failed    bool
	transient bool // the failure is an expired write deadline: later writes work again
}

func (w *shortWriter) Write(p []byte) (int, error) {
	if w.failed {
		return 0, errors.New("simulated: connection broken")
	}
	n := len(p)
	if w.failAfter > 0 && w.written+n >= w.failAfter {
		n = w.failAfter - w.written
		if w.transient {
			// the peer did not read for a while: part of the chunk went out,
			// the deadline expired; the caller may extend it and go on
			simrt.Fault("underlying-write-deadline")
			w.failAfter = 0
			k, _ := w.Conn.Write(p[:n])
			w.written += k
			return k, &net.OpError{Op: "write", Net: "tcp", Err: os.ErrDeadlineExceeded}
		}
		simrt.Fault("underlying-write-error")
		w.failed = true
		k, _ := w.Conn.Write(p[:n])
		w.written += k
		return k, errors.New("simulated: write failed")
	}
	if w.shortDen > 0 && n > 1 && w.st.Bool(1, w.shortDen) {
		simrt.Fault("underlying-short-write")
		n = 1 + w.st.Choice(n-1)
		k, _ := w.Conn.Write(p[:n])
		w.written += k
		return k, nil // fewer bytes than asked, no error
	}
	k, err := w.Conn.Write(p)
	w.written += k
	return k, err
}

func cryptoStreamMain(rc *RunCtx) {
	st := rc.St
	infoHash := drawBytes(st, 20)
	ab := simnet.DrawLink(st)
	ba := simnet.DrawLink(st)
	// the handshake itself runs over a well-behaved link (its sensitivity
	// to segmentation is C07's subject)
	cc, sc := simnet.Pipe(addrA, simnet.TCPAddr("80.2.0.2", 6881), simnet.LinkCfg{}, simnet.LinkCfg{})
	cc.SetDeadline(time.Now().Add(time.Minute))
	sw := &shortWriter{Conn: cc, st: st}
	shortDen := 0
	if st.Bool(1, 3) {
		shortDen = simrt.Pick(st, 4, 2, 10)
	}
	failAt := 0
	transient := false
	if st.Bool(1, 3) {
		failAt = 2000 + st.Choice(300000)
		transient = st.Bool(1, 3)
	}
	var cconn, sconn net.Conn
	var cerr, serr error
	j := &Join{n: 2}
	opts := crypto.DefaultOptions(true, true)
	simrt.GoNamed("cs-client", func() {
		defer j.Done()
		simrt.SetRand(simrt.NewRaw(1))
		cconn, _, cerr = crypto.ClientHandshake(sw, infoHash, nil, opts)
	})
	simrt.GoNamed("cs-server", func() {
		defer j.Done()
		simrt.SetRand(simrt.NewRaw(2))
		sc.SetReadDeadline(time.Now().Add(time.Minute))
		head := make([]byte, 20)
		if _, err := io.ReadFull(sc, head); err != nil {
			serr = err
			return
		}
		sconn, _, _, serr = crypto.ServerHandshake(sc, head, [][]byte{infoHash}, opts)
	})
	j.Wait()
	if cerr != nil || serr != nil {
		rc.Fail("C08", "stream-setup", "", "handshake for the stream test failed: %v / %v", cerr, serr)
		return
	}
	sw.shortDen = shortDen
	cc.SetDeadline(time.Time{})
	eofWithData := failAt == 0 && st.Bool(1, 4)
	ab.EOFWithData = eofWithData
	cc.SetOutLink(ab)
	sc.SetOutLink(ba)
	if _, ok := cconn.(*crypto.Conn); !ok {
		rc.Fail("C08", "stream-setup", "not-encrypted", "forced encryption gave %T", cconn)
		return
	}
	sw.failAfter = 0
	if failAt > 0 {
		sw.failAfter = sw.written + failAt
		sw.transient = transient
	}
	sc.SetReadDeadline(time.Time{})
	// writers on the client side
	readMode := st.Weighted(3, 1, 1, 2, 2) // sizes of the receiver's reads
	tiny := readMode == 1 || readMode == 2 || ab.Seg == simnet.SegBytes || ab.Seg == simnet.SegSmall
	nw := 1 + st.Choice(3)
	type wrec struct {
		data []byte
		n    int
		err  error
		inv  uint64
		ret  uint64
	}
	var writes [][]*wrec = make([][]*wrec, nw)
	total := 0
	wj := &Join{n: nw}
	for w := 0; w < nw; w++ {
		w := w
		cnt := 1 + st.Choice(6)
		simrt.GoNamed(fmt.Sprintf("cs-writer%d", w), func() {
			defer wj.Done()
			for k := 0; k < cnt; k++ {
				size := simrt.Pick(st, 100, 0, 1, 32768, 32769, 65536, 70000, 1+st.Choice(200000))
				if tiny {
					size = simrt.Pick(st, 100, 0, 1, 700, 1+st.Choice(3000))
				}
				d := make([]byte, size)
				// every write is recognisable: a header byte per writer and
				// a position-dependent body
				for i := range d {
					d[i] = byte(w*64+k*8) ^ byte(i*7+i>>8)
				}
				r := &wrec{data: d, inv: rc.Tick()}
				r.n, r.err = cconn.Write(d)
				r.ret = rc.Tick()
				writes[w] = append(writes[w], r)
				total += r.n
			}
		})
	}
	var got []byte
	var rerr error
	rdone := &Join{n: 1}
	simrt.GoNamed("cs-reader", func() {
		defer rdone.Done()
		for {
			var buf []byte
			switch readMode {
			case 0:
				buf = make([]byte, 4096)
			case 1:
				buf = make([]byte, 1)
			case 2:
				buf = make([]byte, 7)
			case 3:
				buf = make([]byte, 65536)
			default:
				buf = make([]byte, 1+st.Choice(65536))
			}
			sconn.SetReadDeadline(time.Now().Add(30 * time.Second))
			n, err := sconn.Read(buf)
			got = append(got, buf[:n]...)
			if err != nil {
				rerr = err
				return
			}
		}
	})
	wj.Wait()
	// let everything drain, then close; or (eofWithData) close at once, so
	// that the end of the stream reaches the receiver together with data
	if !eofWithData {
		simrt.Sleep(5 * time.Second)
	}
	cconn.Close()
	rdone.Wait()
	_ = rerr
	rc.SetSample("stream", fmt.Sprintf("%d writers, %d bytes accepted, %d received, short-write 1/%d, fail after %d", nw, total, len(got), sw.shortDen, failAt))
	// order the writes by when they returned (each Write holds the lock for
	// its whole duration, so writes do not interleave)
	var all []*wrec
	for _, ws := range writes {
		all = append(all, ws...)
	}
	failedSeen := false
	var firstFailRet uint64
	for _, r := range all {
		if r.n < 0 || r.n > len(r.data) {
			rc.Fail("C08", "stream-count", "", "Write of %d bytes returned n=%d", len(r.data), r.n)
			return
		}
		if r.err == nil && r.n != len(r.data) {
			rc.Fail("C08", "stream-count", "short-without-error", "Write of %d bytes returned n=%d and no error", len(r.data), r.n)
			return
		}
		if r.err != nil && (!failedSeen || r.ret < firstFailRet) {
			failedSeen = true
			firstFailRet = r.ret
		}
	}
	for _, r := range all {
		if failedSeen && r.inv > firstFailRet && r.err == nil && len(r.data) > 0 {
			rc.Fail("C08", "stream-sticky", "", "a Write invoked after an earlier Write had failed succeeded")
			return
		}
	}
	// the received plaintext must be a concatenation of the accepted parts
	// of the writes, each writer's in its own order
	rest := got
	idx := make([]int, nw)
	for len(rest) > 0 {
		matched := false
		for w := 0; w < nw; w++ {
			for idx[w] < len(writes[w]) && writes[w][idx[w]].n == 0 {
				idx[w]++
			}
			if idx[w] >= len(writes[w]) {
				continue
			}
			r := writes[w][idx[w]]
			part := r.data[:r.n]
			if len(rest) >= len(part) && bytes.Equal(rest[:len(part)], part) {
				rest = rest[len(part):]
				idx[w]++
				matched = true
				break
			}
			if r.err != nil && len(rest) < len(part) && bytes.Equal(rest, part[:len(rest)]) {
				// the failed write's tail may not have reached the wire
				rest = nil
				matched = true
				break
			}
		}
		if !matched {
			rc.Fail("C08", "stream-content", "", "after %d correctly received bytes the receiver got bytes that are not the beginning of any pending write (%d bytes left)", len(got)-len(rest), len(rest))
			return
		}
	}
	if !failedSeen && sw.shortDen == 0 && len(got) != total {
		rc.Fail("C08", "stream-complete", "", "no fault fired: %d bytes accepted by Write, %d received", total, len(got))
	}
	if len(got) > 0 {
		rc.Progress()
	}
}
