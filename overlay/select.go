// Copyright 2009 The Go Authors. All rights reserved.
// Use of this source code is governed by a BSD-style
// license that can be found in the LICENSE file.

package runtime

// This file contains the implementation of Go select statements.

import (
	"internal/abi"
	"internal/runtime/sys"
	"unsafe"
)

const debugSelect = false

// Select case descriptor.
// Known to compiler.
// Changes here must also be made in src/cmd/compile/internal/walk/select.go's scasetype.
type scase struct {
	c    *hchan         // chan
	elem unsafe.Pointer // data element
}

var (
	chansendpc = abi.FuncPCABIInternal(chansend)
	chanrecvpc = abi.FuncPCABIInternal(chanrecv)
)

func selectsetpc(pc *uintptr) {
	*pc = sys.GetCallerPC()
}

func sellock(scases []scase, lockorder []uint16) {
	var c *hchan
	for _, o := range lockorder {
		c0 := scases[o].c
		if c0 != c {
			c = c0
			lock(&c.lock)
		}
	}
}

func selunlock(scases []scase, lockorder []uint16) {
	// We must be very careful here to not touch sel after we have unlocked
	// the last lock, because sel can be freed right after the last unlock.
	// Consider the following situation.
	// First M calls runtime·park() in runtime·selectgo() passing the sel.
	// Once runtime·park() has unlocked the last lock, another M makes
	// the G that calls select runnable again and schedules it for execution.
	// When the G runs on another M, it locks all the locks and frees sel.
	// Now if the first M touches sel, it will access freed memory.
	for i := len(lockorder) - 1; i >= 0; i-- {
		c := scases[lockorder[i]].c
		if i > 0 && c == scases[lockorder[i-1]].c {
			continue // will unlock it on the next iteration
		}
		unlock(&c.lock)
	}
}

func selparkcommit(gp *g, _ unsafe.Pointer) bool {
	// There are unlocked sudogs that point into gp's stack. Stack
	// copying must lock the channels of those sudogs.
	// Set activeStackChans here instead of before we try parking
	// because we could self-deadlock in stack growth on a
	// channel lock.
	gp.activeStackChans = true
	// Mark that it's safe for stack shrinking to occur now,
	// because any thread acquiring this G's stack for shrinking
	// is guaranteed to observe activeStackChans after this store.
	gp.parkingOnChan.Store(false)
	// Make sure we unlock after setting activeStackChans and
	// unsetting parkingOnChan. The moment we unlock any of the
	// channel locks we risk gp getting readied by a channel operation
	// and so gp could continue running before everything before the
	// unlock is visible (even to gp itself).

	// This must not access gp's stack (see gopark). In
	// particular, it must not access the *hselect. That's okay,
	// because by the time this is called, gp.waiting has all
	// channels in lock order.
	var lastc *hchan
	for sg := gp.waiting; sg != nil; sg = sg.waitlink {
		if sg.c.get() != lastc && lastc != nil {
			// As soon as we unlock the channel, fields in
			// any sudog with that channel may change,
			// including c and waitlink. Since multiple
			// sudogs may have the same channel, we unlock
			// only after we've passed the last instance
			// of a channel.
			unlock(&lastc.lock)
		}
		lastc = sg.c.get()
	}
	if lastc != nil {
		unlock(&lastc.lock)
	}
	return true
}

func block() {
	gopark(nil, nil, waitReasonSelectNoCases, traceBlockForever, 1) // forever
}

// selectgo implements the select statement.
//
// cas0 points to an array of type [ncases]scase, and order0 points to
// an array of type [2*ncases]uint16 where ncases must be <= 65536.
// Both reside on the goroutine's stack (regardless of any escaping in
// selectgo).
//
// For race detector builds, pc0 points to an array of type
// [ncases]uintptr (also on the stack); for other builds, it's set to
// nil.
//
// selectgo returns the index of the chosen scase, which matches the
// ordinal position of its respective select{recv,send,default} call.
// Also, if the chosen scase was a receive operation, it reports whether
// a value was received.
func selectgo(cas0 *scase, order0 *uint16, pc0 *uintptr, nsends, nrecvs int, block bool) (int, bool) {
	gp := getg()
	if debugSelect {
		print("select: cas0=", cas0, "\n")
	}

	// NOTE: In order to maintain a lean stack size, the number of scases
	// is capped at 65536.
	cas1 := (*[1 << 16]scase)(unsafe.Pointer(cas0))
	order1 := (*[1 << 17]uint16)(unsafe.Pointer(order0))

	ncases := nsends + nrecvs
	scases := cas1[:ncases:ncases]
	pollorder := order1[:ncases:ncases]
	lockorder := order1[ncases:][:ncases:ncases]
	// NOTE: pollorder/lockorder's underlying array was not zero-initialized by compiler.

	// Even when raceenabled is true, there might be select
	// statements in packages compiled without -race (e.g.,
	// ensureSigM in runtime/signal_unix.go).
	var pcs []uintptr
	if raceenabled && pc0 != nil {
		pc1 := (*[1 << 16]uintptr)(unsafe.Pointer(pc0))
		pcs = pc1[:ncases:ncases]
	}
	casePC := func(casi int) uintptr {
		if pcs == nil {
			return 0
		}
		return pcs[casi]
	}

	var t0 int64
	if blockprofilerate > 0 {
		t0 = cputicks()
	}

	// The compiler rewrites selects that statically have
	// only 0 or 1 cases plus default into simpler constructs.
	// The only way we can end up with such small sel.ncase
	// values here is for a larger select in which most channels
	// have been nilled out. The general code handles those
	// cases correctly, and they are rare enough not to bother
	// optimizing (and needing to test).

	// generate permuted order
	norder := 0
	allSynctest := true
	for i := range scases {
		cas := &scases[i]

		// Omit cases without channels from the poll and lock orders.
		if cas.c == nil {
			cas.elem = nil // allow GC
			continue
		}

		if cas.c.bubble != nil {
			if getg().bubble != cas.c.bubble {
				fatal("select on synctest channel from outside bubble")
			}
		} else {
			allSynctest = false
		}

		if cas.c.timer != nil {
			cas.c.timer.maybeRunChan(cas.c)
		}

		j := simselectn(uint32(norder + 1))
		pollorder[norder] = pollorder[j]
		pollorder[j] = uint16(i)
		norder++
	}
	pollorder = pollorder[:norder]
	lockorder = lockorder[:norder]

	waitReason := waitReasonSelect
	if gp.bubble != nil && allSynctest {
		// Every channel selected on is in a synctest bubble,
		// so this goroutine will count as idle while selecting.
		waitReason = waitReasonSynctestSelect
	}

	// sort the cases by Hchan address to get the locking order.
	// simple heap sort, to guarantee n log n time and constant stack footprint.
	for i := range lockorder {
		j := i
		// Start with the pollorder to permute cases on the same channel.
		c := scases[pollorder[i]].c
		for j > 0 && scases[lockorder[(j-1)/2]].c.sortkey() < c.sortkey() {
			k := (j - 1) / 2
			lockorder[j] = lockorder[k]
			j = k
		}
		lockorder[j] = pollorder[i]
	}
	for i := len(lockorder) - 1; i >= 0; i-- {
		o := lockorder[i]
		c := scases[o].c
		lockorder[i] = lockorder[0]
		j := 0
		for {
			k := j*2 + 1
			if k >= i {
				break
			}
			if k+1 < i && scases[lockorder[k]].c.sortkey() < scases[lockorder[k+1]].c.sortkey() {
				k++
			}
			if c.sortkey() < scases[lockorder[k]].c.sortkey() {
				lockorder[j] = lockorder[k]
				j = k
				continue
			}
			break
		}
		lockorder[j] = o
	}

	if debugSelect {
		for i := 0; i+1 < len(lockorder); i++ {
			if scases[lockorder[i]].c.sortkey() > scases[lockorder[i+1]].c.sortkey() {
				print("i=", i, " x=", lockorder[i], " y=", lockorder[i+1], "\n")
				throw("select: broken sort")
			}
		}
	}

	// lock all the channels involved in the select
	sellock(scases, lockorder)

	var (
		sg     *sudog
		c      *hchan
		k      *scase
		sglist *sudog
		sgnext *sudog
		qp     unsafe.Pointer
		nextp  **sudog
	)

	// pass 1 - look for something already waiting
	var casi int
	var cas *scase
	var caseSuccess bool
	var caseReleaseTime int64 = -1
	var recvOK bool
	for _, casei := range pollorder {
		casi = int(casei)
		cas = &scases[casi]
		c = cas.c

		if casi >= nsends {
			sg = c.sendq.dequeue()
			if sg != nil {
				goto recv
			}
			if c.qcount > 0 {
				goto bufrecv
			}
			if c.closed != 0 {
				goto rclose
			}
		} else {
			if raceenabled {
				racereadpc(c.raceaddr(), casePC(casi), chansendpc)
			}
			if c.closed != 0 {
				goto sclose
			}
			sg = c.recvq.dequeue()
			if sg != nil {
				goto send
			}
			if c.qcount < c.dataqsiz {
				goto bufsend
			}
		}
	}

	if !block {
		selunlock(scases, lockorder)
		casi = -1
		goto retc
	}

	// pass 2 - enqueue on all chans
	if gp.waiting != nil {
		throw("gp.waiting != nil")
	}
	nextp = &gp.waiting
	for _, casei := range lockorder {
		casi = int(casei)
		cas = &scases[casi]
		c = cas.c
		sg := acquireSudog()
		sg.g = gp
		sg.isSelect = true
		// No stack splits between assigning elem and enqueuing
		// sg on gp.waiting where copystack can find it.
		sg.elem.set(cas.elem)
		sg.releasetime = 0
		if t0 != 0 {
			sg.releasetime = -1
		}
		sg.c.set(c)
		// Construct waiting list in lock order.
		*nextp = sg
		nextp = &sg.waitlink

		if casi < nsends {
			c.sendq.enqueue(sg)
		} else {
			c.recvq.enqueue(sg)
		}

		if c.timer != nil {
			blockTimerChan(c)
		}
	}

	// wait for someone to wake us up
	gp.param = nil
	// Signal to anyone trying to shrink our stack that we're about
	// to park on a channel. The window between when this G's status
	// changes and when we set gp.activeStackChans is not safe for
	// stack shrinking.
	gp.parkingOnChan.Store(true)
	gopark(selparkcommit, nil, waitReason, traceBlockSelect, 1)
	gp.activeStackChans = false

	sellock(scases, lockorder)

	gp.selectDone.Store(0)
	sg = (*sudog)(gp.param)
	gp.param = nil

	// pass 3 - dequeue from unsuccessful chans
	// otherwise they stack up on quiet channels
	// record the successful case, if any.
	// We singly-linked up the SudoGs in lock order.
	casi = -1
	cas = nil
	caseSuccess = false
	sglist = gp.waiting
	// Clear all elem before unlinking from gp.waiting.
	for sg1 := gp.waiting; sg1 != nil; sg1 = sg1.waitlink {
		sg1.isSelect = false
		sg1.elem.set(nil)
		sg1.c.set(nil)
	}
	gp.waiting = nil

	for _, casei := range lockorder {
		k = &scases[casei]
		if k.c.timer != nil {
			unblockTimerChan(k.c)
		}
		if sg == sglist {
			// sg has already been dequeued by the G that woke us up.
			casi = int(casei)
			cas = k
			caseSuccess = sglist.success
			if sglist.releasetime > 0 {
				caseReleaseTime = sglist.releasetime
			}
		} else {
			c = k.c
			if int(casei) < nsends {
				c.sendq.dequeueSudoG(sglist)
			} else {
				c.recvq.dequeueSudoG(sglist)
			}
		}
		sgnext = sglist.waitlink
		sglist.waitlink = nil
		releaseSudog(sglist)
		sglist = sgnext
	}

	if cas == nil {
		throw("selectgo: bad wakeup")
	}

	c = cas.c

	if debugSelect {
		print("wait-return: cas0=", cas0, " c=", c, " cas=", cas, " send=", casi < nsends, "\n")
	}

	if casi < nsends {
		if !caseSuccess {
			goto sclose
		}
	} else {
		recvOK = caseSuccess
	}

	if raceenabled {
		if casi < nsends {
			raceReadObjectPC(c.elemtype, cas.elem, casePC(casi), chansendpc)
		} else if cas.elem != nil {
			raceWriteObjectPC(c.elemtype, cas.elem, casePC(casi), chanrecvpc)
		}
	}
	if msanenabled {
		if casi < nsends {
			msanread(cas.elem, c.elemtype.Size_)
		} else if cas.elem != nil {
			msanwrite(cas.elem, c.elemtype.Size_)
		}
	}
	if asanenabled {
		if casi < nsends {
			asanread(cas.elem, c.elemtype.Size_)
		} else if cas.elem != nil {
			asanwrite(cas.elem, c.elemtype.Size_)
		}
	}

	selunlock(scases, lockorder)
	goto retc

bufrecv:
	// can receive from buffer
	if raceenabled {
		if cas.elem != nil {
			raceWriteObjectPC(c.elemtype, cas.elem, casePC(casi), chanrecvpc)
		}
		racenotify(c, c.recvx, nil)
	}
	if msanenabled && cas.elem != nil {
		msanwrite(cas.elem, c.elemtype.Size_)
	}
	if asanenabled && cas.elem != nil {
		asanwrite(cas.elem, c.elemtype.Size_)
	}
	recvOK = true
	qp = chanbuf(c, c.recvx)
	if cas.elem != nil {
		typedmemmove(c.elemtype, cas.elem, qp)
	}
	typedmemclr(c.elemtype, qp)
	c.recvx++
	if c.recvx == c.dataqsiz {
		c.recvx = 0
	}
	c.qcount--
	selunlock(scases, lockorder)
	goto retc

bufsend:
	// can send to buffer
	if raceenabled {
		racenotify(c, c.sendx, nil)
		raceReadObjectPC(c.elemtype, cas.elem, casePC(casi), chansendpc)
	}
	if msanenabled {
		msanread(cas.elem, c.elemtype.Size_)
	}
	if asanenabled {
		asanread(cas.elem, c.elemtype.Size_)
	}
	typedmemmove(c.elemtype, chanbuf(c, c.sendx), cas.elem)
	c.sendx++
	if c.sendx == c.dataqsiz {
		c.sendx = 0
	}
	c.qcount++
	selunlock(scases, lockorder)
	goto retc

recv:
	// can receive from sleeping sender (sg)
	recv(c, sg, cas.elem, func() { selunlock(scases, lockorder) }, 2)
	if debugSelect {
		print("syncrecv: cas0=", cas0, " c=", c, "\n")
	}
	recvOK = true
	goto retc

rclose:
	// read at end of closed channel
	selunlock(scases, lockorder)
	recvOK = false
	if cas.elem != nil {
		typedmemclr(c.elemtype, cas.elem)
	}
	if raceenabled {
		raceacquire(c.raceaddr())
	}
	goto retc

send:
	// can send to a sleeping receiver (sg)
	if raceenabled {
		raceReadObjectPC(c.elemtype, cas.elem, casePC(casi), chansendpc)
	}
	if msanenabled {
		msanread(cas.elem, c.elemtype.Size_)
	}
	if asanenabled {
		asanread(cas.elem, c.elemtype.Size_)
	}
	send(c, sg, cas.elem, func() { selunlock(scases, lockorder) }, 2)
	if debugSelect {
		print("syncsend: cas0=", cas0, " c=", c, "\n")
	}
	goto retc

retc:
	if caseReleaseTime > 0 {
		blockevent(caseReleaseTime-t0, 1)
	}
	return casi, recvOK

sclose:
	// send on closed channel
	selunlock(scases, lockorder)
	panic(plainError("send on closed channel"))
}

func (c *hchan) sortkey() uintptr {
	return uintptr(unsafe.Pointer(c))
}

// A runtimeSelect is a single case passed to rselect.
// This must match ../reflect/value.go:/runtimeSelect
type runtimeSelect struct {
	dir selectDir
	typ unsafe.Pointer // channel type (not used here)
	ch  *hchan         // channel
	val unsafe.Pointer // ptr to data (SendDir) or ptr to receive buffer (RecvDir)
}

// These values must match ../reflect/value.go:/SelectDir.
type selectDir int

const (
	_             selectDir = iota
	selectSend              // case Chan <- Send
	selectRecv              // case <-Chan:
	selectDefault           // default
)

//go:linkname reflect_rselect reflect.rselect
func reflect_rselect(cases []runtimeSelect) (int, bool) {
	if len(cases) == 0 {
		block()
	}
	sel := make([]scase, len(cases))
	orig := make([]int, len(cases))
	nsends, nrecvs := 0, 0
	dflt := -1
	for i, rc := range cases {
		var j int
		switch rc.dir {
		case selectDefault:
			dflt = i
			continue
		case selectSend:
			j = nsends
			nsends++
		case selectRecv:
			nrecvs++
			j = len(cases) - nrecvs
		}

		sel[j] = scase{c: rc.ch, elem: rc.val}
		orig[j] = i
	}

	// Only a default case.
	if nsends+nrecvs == 0 {
		return dflt, false
	}

	// Compact sel and orig if necessary.
	if nsends+nrecvs < len(cases) {
		copy(sel[nsends:], sel[len(cases)-nrecvs:])
		copy(orig[nsends:], orig[len(cases)-nrecvs:])
	}

	order := make([]uint16, 2*(nsends+nrecvs))
	var pc0 *uintptr
	if raceenabled {
		pcs := make([]uintptr, nsends+nrecvs)
		for i := range pcs {
			selectsetpc(&pcs[i])
		}
		pc0 = &pcs[0]
	}

	chosen, recvOK := selectgo(&sel[0], &order[0], pc0, nsends, nrecvs, dflt == -1)

	// Translate chosen back to caller's ordering.
	if chosen < 0 {
		chosen = dflt
	} else {
		chosen = orig[chosen]
	}
	return chosen, recvOK
}

func (q *waitq) dequeueSudoG(sgp *sudog) {
	x := sgp.prev
	y := sgp.next
	if x != nil {
		if y != nil {
			// middle of queue
			x.next = y
			y.prev = x
			sgp.next = nil
			sgp.prev = nil
			return
		}
		// end of queue
		x.next = nil
		q.last = x
		sgp.prev = nil
		return
	}
	if y != nil {
		// start of queue
		y.prev = nil
		q.first = y
		sgp.next = nil
		return
	}

	// x==y==nil. Either sgp is the only element in the queue,
	// or it has already been removed. Use q.first to disambiguate.
	if q.first == sgp {
		q.first = nil
		q.last = nil
	}
}
