package requests

// SimIndices returns the chunk indices in the queue and in the set of
// requests that have been sent.
func (rs *Requests) SimIndices() (queued, outstanding []uint32) {
	for _, r := range rs.queue {
		queued = append(queued, r.index)
	}
	for _, r := range rs.requested {
		outstanding = append(outstanding, r.index)
	}
	return
}
