package refwire

import (
	"encoding/binary"
	"errors"
	"fmt"
)

// Message ids.  BEP 3 "peer messages" defines 0..8; id 9 (port) is BEP 5;
// 13..17 are the fast extension, BEP 6; 20 is the extension protocol, BEP 10.
const (
	IDChoke         uint8 = 0
	IDUnchoke       uint8 = 1
	IDInterested    uint8 = 2
	IDNotInterested uint8 = 3
	IDHave          uint8 = 4
	IDBitfield      uint8 = 5
	IDRequest       uint8 = 6
	IDPiece         uint8 = 7
	IDCancel        uint8 = 8
	IDPort          uint8 = 9
	IDSuggestPiece  uint8 = 13
	IDHaveAll       uint8 = 14
	IDHaveNone      uint8 = 15
	IDRejectRequest uint8 = 16
	IDAllowedFast   uint8 = 17
	IDExtended      uint8 = 20
)

// Message is implemented by every wire message type of this package (as a
// value, not as a pointer: Encode and DecodeFrame deal in values only).
type Message interface{ isMsg() }

// Every message on the wire is <uint32 length, big-endian><length bytes>
// (BEP 3: "length-prefixed").  A message of length zero is a keep-alive;
// otherwise the first payload byte is the message id.

// KeepAlive is the zero-length message (BEP 3).  Wire: 00 00 00 00.
type KeepAlive struct{}

// Choke: <len=1><id=0> (BEP 3).
type Choke struct{}

// Unchoke: <len=1><id=1> (BEP 3).
type Unchoke struct{}

// Interested: <len=1><id=2> (BEP 3).
type Interested struct{}

// NotInterested: <len=1><id=3> (BEP 3).
type NotInterested struct{}

// Have: <len=5><id=4><piece index> (BEP 3).
type Have struct{ Index uint32 }

// Bitfield: <len=1+n><id=5><n bytes>; the high bit of the first byte is piece
// 0 (BEP 3).  Only valid as the first message after the handshake, and spare
// bits must be zero, but that is session state, not framing.
type Bitfield struct{ Bits []byte }

// Request: <len=13><id=6><index><begin><length> (BEP 3).
type Request struct{ Index, Begin, Length uint32 }

// Piece: <len=9+n><id=7><index><begin><n bytes of data> (BEP 3).
type Piece struct {
	Index, Begin uint32
	Data         []byte
}

// Cancel: <len=13><id=8><index><begin><length> (BEP 3).
type Cancel struct{ Index, Begin, Length uint32 }

// Port: <len=3><id=9><listen-port> -- the UDP port of the DHT node (BEP 5).
type Port struct{ Port uint16 }

// SuggestPiece: <len=5><id=0x0D><index> (BEP 6).
type SuggestPiece struct{ Index uint32 }

// HaveAll: <len=1><id=0x0E> (BEP 6).
type HaveAll struct{}

// HaveNone: <len=1><id=0x0F> (BEP 6).
type HaveNone struct{}

// RejectRequest: <len=13><id=0x10><index><begin><length> (BEP 6).
type RejectRequest struct{ Index, Begin, Length uint32 }

// AllowedFast: <len=5><id=0x11><index> (BEP 6).
type AllowedFast struct{ Index uint32 }

// Extended: <len=2+n><id=20><extended message id><n bytes> (BEP 10).  SubID 0
// is the extension handshake; other values are the ids the RECEIVER announced
// in the "m" dictionary of its own handshake.  The payload helpers are in
// ext.go.
type Extended struct {
	SubID   uint8
	Payload []byte
}

// Unknown is a well-framed message whose id this package does not know.
type Unknown struct {
	ID      uint8
	Payload []byte // everything after the id byte
}

func (KeepAlive) isMsg()     {}
func (Choke) isMsg()         {}
func (Unchoke) isMsg()       {}
func (Interested) isMsg()    {}
func (NotInterested) isMsg() {}
func (Have) isMsg()          {}
func (Bitfield) isMsg()      {}
func (Request) isMsg()       {}
func (Piece) isMsg()         {}
func (Cancel) isMsg()        {}
func (Port) isMsg()          {}
func (SuggestPiece) isMsg()  {}
func (HaveAll) isMsg()       {}
func (HaveNone) isMsg()      {}
func (RejectRequest) isMsg() {}
func (AllowedFast) isMsg()   {}
func (Extended) isMsg()      {}
func (Unknown) isMsg()       {}

// frame builds <len><id><parts...>.
func frame(id uint8, parts ...[]byte) []byte {
	n := 1
	for _, p := range parts {
		n += len(p)
	}
	out := make([]byte, 4, 4+n)
	binary.BigEndian.PutUint32(out, uint32(n))
	out = append(out, id)
	for _, p := range parts {
		out = append(out, p...)
	}
	return out
}

func u32(vs ...uint32) []byte {
	out := make([]byte, 4*len(vs))
	for i, v := range vs {
		binary.BigEndian.PutUint32(out[4*i:], v)
	}
	return out
}

// Encode returns the complete wire frame for m, 4-byte length prefix included.
// m must be one of the message VALUE types of this package; anything else
// (including pointers to them) is a programming error and panics.
func Encode(m Message) []byte {
	switch x := m.(type) {
	case KeepAlive:
		return []byte{0, 0, 0, 0}
	case Choke:
		return frame(IDChoke)
	case Unchoke:
		return frame(IDUnchoke)
	case Interested:
		return frame(IDInterested)
	case NotInterested:
		return frame(IDNotInterested)
	case Have:
		return frame(IDHave, u32(x.Index))
	case Bitfield:
		return frame(IDBitfield, x.Bits)
	case Request:
		return frame(IDRequest, u32(x.Index, x.Begin, x.Length))
	case Piece:
		return frame(IDPiece, u32(x.Index, x.Begin), x.Data)
	case Cancel:
		return frame(IDCancel, u32(x.Index, x.Begin, x.Length))
	case Port:
		return frame(IDPort, []byte{byte(x.Port >> 8), byte(x.Port)})
	case SuggestPiece:
		return frame(IDSuggestPiece, u32(x.Index))
	case HaveAll:
		return frame(IDHaveAll)
	case HaveNone:
		return frame(IDHaveNone)
	case RejectRequest:
		return frame(IDRejectRequest, u32(x.Index, x.Begin, x.Length))
	case AllowedFast:
		return frame(IDAllowedFast, u32(x.Index))
	case Extended:
		return frame(IDExtended, []byte{x.SubID}, x.Payload)
	case Unknown:
		return frame(x.ID, x.Payload)
	default:
		panic(fmt.Sprintf("refwire.Encode: unsupported message type %T", m))
	}
}

// Errors returned by DecodeFrame (wrapped in a *FrameError where an id is
// known).
var (
	ErrShortFrame     = errors.New("refwire: frame shorter than its 4-byte length prefix")
	ErrLengthMismatch = errors.New("refwire: declared length does not match frame size")
	ErrBadLength      = errors.New("refwire: wrong length for message id")
	ErrFrameTooLarge  = errors.New("refwire: declared length exceeds limit")
)

// FrameError reports a well-delimited frame whose length is not the one its
// message id requires.
type FrameError struct {
	ID  uint8  // message id
	Len uint32 // declared length (id byte included)
	Err error  // ErrBadLength
}

func (e *FrameError) Error() string {
	return fmt.Sprintf("refwire: message id %d with length %d: %v", e.ID, e.Len, e.Err)
}

func (e *FrameError) Unwrap() error { return e.Err }

func clone(b []byte) []byte {
	out := make([]byte, len(b))
	copy(out, b)
	return out
}

// DecodeFrame decodes ONE complete frame, 4-byte length prefix included.  It
// is strict: the declared length must equal len(frame)-4 and the length must
// be exactly the one the message id calls for (a Have of length 6 is an
// error).  Ids this package does not know are returned as Unknown, not as an
// error.  Variable-size payloads in the result are copies and do not alias
// frame.  DecodeFrame never panics.
func DecodeFrame(frame []byte) (Message, error) {
	if len(frame) < 4 {
		return nil, ErrShortFrame
	}
	n := binary.BigEndian.Uint32(frame)
	if uint64(n) != uint64(len(frame)-4) {
		return nil, ErrLengthMismatch
	}
	if n == 0 {
		return KeepAlive{}, nil
	}
	id := frame[4]
	p := frame[5:] // len(p) == n-1
	bad := func() (Message, error) {
		return nil, &FrameError{ID: id, Len: n, Err: ErrBadLength}
	}
	be := binary.BigEndian
	switch id {
	case IDChoke, IDUnchoke, IDInterested, IDNotInterested, IDHaveAll, IDHaveNone:
		if len(p) != 0 {
			return bad()
		}
		switch id {
		case IDChoke:
			return Choke{}, nil
		case IDUnchoke:
			return Unchoke{}, nil
		case IDInterested:
			return Interested{}, nil
		case IDNotInterested:
			return NotInterested{}, nil
		case IDHaveAll:
			return HaveAll{}, nil
		default:
			return HaveNone{}, nil
		}
	case IDHave, IDSuggestPiece, IDAllowedFast:
		if len(p) != 4 {
			return bad()
		}
		idx := be.Uint32(p)
		switch id {
		case IDHave:
			return Have{idx}, nil
		case IDSuggestPiece:
			return SuggestPiece{idx}, nil
		default:
			return AllowedFast{idx}, nil
		}
	case IDBitfield:
		return Bitfield{Bits: clone(p)}, nil
	case IDRequest, IDCancel, IDRejectRequest:
		if len(p) != 12 {
			return bad()
		}
		a, b, c := be.Uint32(p), be.Uint32(p[4:]), be.Uint32(p[8:])
		switch id {
		case IDRequest:
			return Request{a, b, c}, nil
		case IDCancel:
			return Cancel{a, b, c}, nil
		default:
			return RejectRequest{a, b, c}, nil
		}
	case IDPiece:
		if len(p) < 8 {
			return bad()
		}
		return Piece{Index: be.Uint32(p), Begin: be.Uint32(p[4:]), Data: clone(p[8:])}, nil
	case IDPort:
		if len(p) != 2 {
			return bad()
		}
		return Port{Port: be.Uint16(p)}, nil
	case IDExtended:
		// BEP 10: the byte after the id is the extended message id,
		// so the minimum length is 2.
		if len(p) < 1 {
			return bad()
		}
		return Extended{SubID: p[0], Payload: clone(p[1:])}, nil
	default:
		return Unknown{ID: id, Payload: clone(p)}, nil
	}
}

// SplitFrames cuts a byte stream into complete frames (each including its
// length prefix) and returns the incomplete tail.  The frames and rest alias
// stream.  Note that a hostile length prefix makes everything after it an
// incomplete tail forever; callers that care should inspect rest.
func SplitFrames(stream []byte) (frames [][]byte, rest []byte) {
	rest = stream
	for len(rest) >= 4 {
		n := uint64(binary.BigEndian.Uint32(rest))
		if n+4 > uint64(len(rest)) {
			break
		}
		frames = append(frames, rest[:n+4:n+4])
		rest = rest[n+4:]
	}
	return frames, rest
}

// StreamDecoder decodes a message stream fed in arbitrary cuts.  The zero
// value is ready to use.
type StreamDecoder struct {
	// MaxLen, if non-zero, is the largest acceptable declared length.  A
	// larger length prefix makes Next fail with ErrFrameTooLarge, and that
	// error is sticky since the stream cannot be resynchronised.
	MaxLen uint32

	buf []byte
	err error
}

// Write appends p to the decoder's buffer.  It always returns len(p), nil;
// the signature makes *StreamDecoder an io.Writer.
func (d *StreamDecoder) Write(p []byte) (int, error) {
	d.buf = append(d.buf, p...)
	return len(p), nil
}

// Buffered returns the number of bytes written but not yet consumed by Next.
func (d *StreamDecoder) Buffered() int { return len(d.buf) }

// Next returns the next message.
//
//   - (m, true, nil): one frame was consumed and decoded to m.
//   - (nil, false, nil): no complete frame is buffered; Write more.
//   - (nil, false, err): a complete frame was consumed but DecodeFrame
//     rejected it (the following frames remain decodable), or, for
//     ErrFrameTooLarge, the stream is dead and every later call fails alike.
func (d *StreamDecoder) Next() (Message, bool, error) {
	if d.err != nil {
		return nil, false, d.err
	}
	if len(d.buf) < 4 {
		return nil, false, nil
	}
	n := binary.BigEndian.Uint32(d.buf)
	if d.MaxLen != 0 && n > d.MaxLen {
		d.err = ErrFrameTooLarge
		return nil, false, d.err
	}
	total := uint64(n) + 4
	if total > uint64(len(d.buf)) {
		return nil, false, nil
	}
	m, err := DecodeFrame(d.buf[:total])
	// DecodeFrame copies, so the buffer can be compacted in place.
	rem := copy(d.buf, d.buf[total:])
	d.buf = d.buf[:rem]
	if err != nil {
		return nil, false, err
	}
	return m, true, nil
}
