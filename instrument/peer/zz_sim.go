package peer

import (
	"net"

	"github.com/jech/storrent/bitmap"
	"github.com/jech/storrent/pex"
	"github.com/jech/storrent/rate"
)

// Read-only accessors for the simulator's oracles and resets of globals.

func SimReset() {
	peerCounter = 0
	numUnchoking = 0
	UploadEstimator = rate.AtomicEstimator{}
	DownloadEstimator = rate.AtomicEstimator{}
}

func (p *Peer) SimBitmap() bitmap.Bitmap   { return p.bitmap.Copy() }
func (p *Peer) SimMyBitmap() bitmap.Bitmap { return p.myBitmap.Copy() }
func (p *Peer) SimAmUnchoking() bool       { return p.amUnchoking != 0 }
func (p *Peer) SimUnchoked() bool          { return p.unchoked != 0 }
func (p *Peer) SimUploadQueue() int        { return len(p.requested) }
func (p *Peer) SimPending() int            { return len(p.Event) + len(p.events) + len(p.writer) }
func (p *Peer) SimConn() net.Conn          { return p.conn }
func (p *Peer) SimIsSeed() bool            { return p.isSeed }
func (p *Peer) SimHasInfo() bool           { return p.Info != nil }
func (p *Peer) SimReqQ() int               { return p.reqQ }

// SimRequests returns the chunks queued for, and outstanding at, this peer.
func (p *Peer) SimRequests() (queued, outstanding []uint32) {
	return p.requests.SimIndices()
}

func (p *Peer) SimPexState() (pending, pendingDel, sent []pex.Peer) {
	return append([]pex.Peer(nil), p.pexState.pending...), append([]pex.Peer(nil), p.pexState.pendingDel...), append([]pex.Peer(nil), p.pexState.sent...)
}

func (p *Peer) SimDone() bool {
	select {
	case <-p.Done:
		return true
	default:
		return false
	}
}

// SimFast returns the pieces this peer has allowed-fast.
func (p *Peer) SimFast() []uint32 { return append([]uint32(nil), p.fast...) }

// SimOutstanding returns the chunks requested from this peer and not yet answered.
func (p *Peer) SimOutstanding() []uint32 {
	_, r := p.requests.SimIndices()
	return r
}

// SimCommands returns the number of commands from the torrent waiting in this peer's queue.
func (p *Peer) SimCommands() int { return len(p.Event) }
