// Package harness holds the scenarios, oracles, runner and manager of the
// deterministic simulation of storrent.
package harness

import (
	crand "crypto/rand"
	"fmt"
	"io"
	"log"
	"runtime"
	"runtime/debug"
	"sort"
	"strings"
	"time"

	"github.com/jech/storrent/alloc"
	"github.com/jech/storrent/config"
	"github.com/jech/storrent/dht"
	"github.com/jech/storrent/httpclient"
	"github.com/jech/storrent/mono"
	"github.com/jech/storrent/zzsim/simrt"
	_ "github.com/jech/storrent/zzsim/simsites"
)

type Violation struct {
	Prop   string `json:"prop"`
	Oracle string `json:"oracle"`
	Class  string `json:"class,omitempty"`
	Detail string `json:"detail"`
}

func (v Violation) Key() string { return v.Prop + "/" + v.Oracle + "/" + v.Class }

type RunResult struct {
	Scen         string           `json:"scen"`
	Base         uint64           `json:"base"`
	Index        int              `json:"index"`
	Viol         []Violation      `json:"viol,omitempty"`
	Cross        []Violation      `json:"cross,omitempty"`
	Crashes      []simrt.Crash    `json:"crashes,omitempty"`
	Stats        simrt.Stats      `json:"stats"`
	Probes       map[string]int64 `json:"probes,omitempty"`
	Faults       map[string]int64 `json:"faults,omitempty"`
	Nontrivial   bool             `json:"nontrivial"`
	Sample       any              `json:"sample,omitempty"`
	Choices      [][2]uint32      `json:"choices,omitempty"`
	NChoices     int              `json:"nchoices"`
	Inconclusive string           `json:"inconclusive,omitempty"`
	Trace        []string         `json:"trace,omitempty"`
	Logs         []string         `json:"logs,omitempty"`
	Leftover     []string         `json:"leftover,omitempty"`
}

// RunCtx is what a scenario's main actor gets.
type RunCtx struct {
	S     *simrt.Sched
	St    *simrt.Stream
	Sc    *Scenario
	Tier  string
	Index int // run index within the batch sequence (used to enumerate configuration tables)

	viol       []Violation
	cross      []Violation
	trace      []string
	sample     map[string]any
	nontrivial bool
	tick       uint64
}

// Tick returns the next value of the harness's total order of observed
// events (invocations and returns of operations).
func (rc *RunCtx) Tick() uint64 { rc.tick++; return rc.tick }

// Fail records a violation of property prop.  If prop is not one the
// scenario serves, it is kept as a cross-property observation.
func (rc *RunCtx) Fail(prop, oracle, class, format string, args ...any) {
	v := Violation{Prop: prop, Oracle: oracle, Class: class, Detail: fmt.Sprintf(format, args...)}
	props := rc.Sc.Props
	if rc.Sc.CrashTo != "" {
		props = append(append([]string(nil), props...), strings.Split(rc.Sc.CrashTo, ",")...)
	}
	for a := range rc.Sc.Also {
		props = append(append([]string(nil), props...), a)
	}
	for _, p := range props {
		if p == prop {
			if len(rc.viol) < 20 {
				rc.viol = append(rc.viol, v)
			}
			rc.Tracef("VIOLATION %s %s %s: %s", prop, oracle, class, v.Detail)
			return
		}
	}
	if len(rc.cross) < 20 {
		rc.cross = append(rc.cross, v)
	}
}

func (rc *RunCtx) Failed() bool { return len(rc.viol) > 0 }

// Tracef records a line of the human-readable schedule/fault trace.
func (rc *RunCtx) Tracef(format string, args ...any) {
	if len(rc.trace) < 4000 {
		rc.trace = append(rc.trace, fmt.Sprintf("[%d t=%v] ", rc.S.Step(), rc.S.Now())+fmt.Sprintf(format, args...))
	}
	rc.S.Logf(format, args...)
}

func (rc *RunCtx) SetSample(k string, v any) {
	if rc.sample == nil {
		rc.sample = map[string]any{}
	}
	rc.sample[k] = v
}

// Progress marks the run as having made the progress that makes it count
// as non-trivial (together with at least one fired fault or contention).
func (rc *RunCtx) Progress() { rc.nontrivial = true }

type Scenario struct {
	Name    string
	Props   []string // properties whose violations this scenario reports
	CrashTo string   // properties (comma separated) a crash or hang of the code under test is attributed to ("" = cross observation only)
	// Knobs: queue capacities of the code under test may be shortened in
	// some runs (simrt.Knob)
	Knobs bool
	// Also lists properties whose check runs this scenario too, with that
	// weight, for the crashes and hangs it may provoke (see CrashTo); the
	// scenario's other oracles stay with Props.
	Also     map[string]int
	Horizon  time.Duration
	MaxSteps uint64
	Weight   int // share of a property's budget
	Main     func(rc *RunCtx)
	// NontrivialNeedsFault: a run counts as non-trivial only if a fault
	// fired or a lock was contended, in addition to Progress().
	NontrivialNeedsFault bool
}

var scenarios = map[string]*Scenario{}

func Register(sc *Scenario) {
	if sc.Weight == 0 {
		sc.Weight = 1
	}
	scenarios[sc.Name] = sc
}

func ScenariosFor(prop string) []*Scenario {
	var out []*Scenario
	for _, sc := range scenarios {
		for _, p := range sc.Props {
			if p == prop {
				out = append(out, sc)
			}
		}
		if sc.Also[prop] > 0 {
			out = append(out, sc)
		}
	}
	sort.Slice(out, func(i, j int) bool { return out[i].Name < out[j].Name })
	return out
}

var origCryptoReader io.Reader

func init() {
	origCryptoReader = crand.Reader
	crand.Reader = simrt.CryptoReader{Orig: origCryptoReader}
	log.SetOutput(simrt.LogSink())
	log.SetFlags(0)
}

// resetGlobals puts the process globals of the code under test back to
// their initial values.
func resetGlobals() {
	alloc.SimReset()
	dht.SimReset()
	httpclient.SimReset()
	config.MemoryMark = 1 << 30 // package main derives it from physical memory; 0 would disable paths guarded by the low mark
	config.PrefetchRate = 0
	config.SetIdleRate(64 * 1024)
	config.SetUploadRate(512 * 1024)
	config.DefaultDhtMode = config.DhtNone
	config.DefaultUseTrackers = false
	config.DefaultUseWebseeds = false
	config.PreferEncryption = false
	config.ForceEncryption = false
	config.ProtocolPort = 0
	config.SetExternalIPv4Port(0, true)
	config.SetExternalIPv4Port(0, false)
	config.SetDefaultProxy("")
	config.Debug = false
	simrt.AllocFail = nil
	for _, f := range extraResets {
		f()
	}
}

var extraResets []func()

func drawPolicy(st *simrt.Stream) (simrt.Policy, bool) {
	var p simrt.Policy
	p.PreemptDen = simrt.Pick(st, 0, 64, 16, 4, 256, 1)
	p.SelectDen = simrt.Pick(st, 0, 2, 1)
	p.RandomPick = st.Bool(1, 2)
	shuffle := st.Bool(1, 2)
	if st.Bool(1, 6) {
		p.PCT = 1 + st.Choice(3)
	}
	return p, shuffle
}

type RunOpts struct {
	Tier     string
	Index    int
	LogLimit int
	Keep     bool // keep choices and trace even without a violation
}

// RunOne executes one run of a scenario on the given stream.
func RunOne(sc *Scenario, st *simrt.Stream, o RunOpts) *RunResult {
	resetGlobals()
	heapBefore := heapAllocBytes()
	pol, shuffle := drawPolicy(st)
	rc := &RunCtx{St: st, Sc: sc, Tier: o.Tier, Index: o.Index}
	hz := sc.Horizon
	if hz == 0 {
		hz = 2 * time.Hour
	}
	s := simrt.Run(simrt.Config{
		Stream: st, Policy: pol, Horizon: hz, MaxSteps: sc.MaxSteps, LogLimit: o.LogLimit,
		MapShuffle: shuffle,
		Knobs:      sc.Knobs,
		Main: func() {
			rc.S = simrt.Cur()
			mono.SimReset()
			sc.Main(rc)
		},
	})
	if h := heapAllocBytes(); h-heapBefore > 256<<20 {
		// a run that made the code under test allocate hundreds of
		// megabytes: give the memory back before the next run
		runtime.GC()
		debug.FreeOSMemory()
	}
	res := &RunResult{Scen: sc.Name, Stats: s.Stats, Probes: s.Probes, Faults: s.Faults, NChoices: st.Len()}
	for _, c := range s.Crashes {
		v := Violation{Oracle: "crash", Class: crashClass(c), Detail: c.G + ": " + c.Value + "\n" + trimStack(c.Stack)}
		if sc.CrashTo != "" {
			for _, p := range strings.Split(sc.CrashTo, ",") {
				v.Prop = p
				rc.viol = append(rc.viol, v)
			}
		} else {
			v.Prop = "crash"
			rc.cross = append(rc.cross, v)
		}
	}
	res.Crashes = s.Crashes
	res.Viol = rc.viol
	res.Cross = rc.cross
	if strings.HasPrefix(s.Stats.EndReason, "cap:") {
		res.Inconclusive = s.Stats.EndReason
	}
	nfault := int64(0)
	for _, v := range s.Faults {
		nfault += v
	}
	res.Nontrivial = rc.nontrivial && (!sc.NontrivialNeedsFault || nfault > 0 || s.Probes["lock-contended"] > 0 || s.Stats.Preempts > 0)
	res.Sample = rc.sample
	if len(res.Viol) > 0 || o.Keep {
		res.Choices = simrt.EncodeRLE(st.Recorded())
		res.Trace = rc.trace
		res.Logs = s.Logs()
		res.Leftover = s.Goroutines()
	}
	return res
}

// crashClass names a crash by the innermost frame of the code under test,
// so that different crashes are different violations.
func crashClass(c simrt.Crash) string {
	lines := strings.Split(c.Stack, "\n")
	seenPanic := false
	for i := 0; i+1 < len(lines); i++ {
		l := lines[i]
		if strings.HasPrefix(l, "panic(") {
			seenPanic = true
			continue
		}
		if !seenPanic {
			continue
		}
		if strings.HasPrefix(l, "github.com/jech/storrent/") && !strings.Contains(l, "/zzsim/") {
			fn := strings.TrimPrefix(l, "github.com/jech/storrent/")
			if k := strings.LastIndex(fn, "("); k > 0 {
				fn = fn[:k]
			}
			return fn
		}
	}
	v := c.Value
	if len(v) > 40 {
		v = v[:40]
	}
	return v
}

func trimStack(s string) string {
	lines := strings.Split(s, "\n")
	var out []string
	for _, l := range lines {
		if strings.Contains(l, "/zzsim/simrt") || strings.Contains(l, "runtime/debug") {
			continue
		}
		out = append(out, l)
		if len(out) > 40 {
			break
		}
	}
	return strings.Join(out, "\n")
}

// List prints the scenarios and the properties they serve.
func List(w io.Writer) {
	var names []string
	for n := range scenarios {
		names = append(names, n)
	}
	sort.Strings(names)
	for _, n := range names {
		fmt.Fprintf(w, "%s %v\n", n, scenarios[n].Props)
	}
}
