package harness

import (
	"bytes"
	"context"
	"fmt"
	"net/http"
	"strconv"
	"strings"
	"time"

	"github.com/jech/storrent/config"
	"github.com/jech/storrent/tor"
	"github.com/jech/storrent/zzsim/simrt"
)

// C14: web-seed data lands exactly where it belongs.

func init() {
	Register(&Scenario{
		Name: "webseed", Knobs: true, Props: []string{"C14"}, CrashTo: "C14", Also: map[string]int{"C09": 1}, // C09: in-flight counts of web-seed fetches (the release oracle)
		Horizon: 6 * time.Hour, MaxSteps: 2000000, Weight: 1, Main: webseedMain,
	})
}

type wsRequest struct {
	hoffman   bool
	path      []string // GetRight: file path relative to the base
	lo, hi    int64    // GetRight: requested byte range of the file [lo, hi]
	piece     int64    // Hoffman
	ranges    string   // Hoffman: the ranges parameter
	tlo, thi  int64    // the torrent range this maps to (-1 if none)
	behaviour int
	epoch     int
}

type refWeb struct {
	w       *World
	st      *simrt.Stream
	spec    *TorSpec
	hostile bool
	reqs    []wsRequest
	base    string
}

func (rw *refWeb) file(path []string) *FileSpec {
	if rw.spec.Files == nil {
		if len(path) == 1 && path[0] == rw.spec.Name {
			return &FileSpec{Path: path, Length: rw.spec.Geo.Length, Offset: 0}
		}
		return nil
	}
	if len(path) < 2 || path[0] != rw.spec.Name {
		return nil
	}
	for i := range rw.spec.Files {
		f := &rw.spec.Files[i]
		if strings.Join(f.Path, "/") == strings.Join(path[1:], "/") {
			return f
		}
	}
	return nil
}

func (rw *refWeb) respond(req *http.Request, data []byte, total int64, lo int64, rangeAsked bool, b int) (*http.Response, error) {
	st := rw.st
	hdr := http.Header{}
	body := rw.w.Body(req.Context(), data)
	if st.Bool(1, 2) {
		body.maxRead = simrt.Pick(st, 1, 7, 100, 4096, 65536)
	}
	status := 206
	cl := int64(len(data))
	if rangeAsked {
		hdr.Set("Content-Range", fmt.Sprintf("bytes %d-%d/%d", lo, lo+int64(len(data))-1, total))
	} else {
		status = 200
	}
	switch b {
	case 1: // the whole file, range ignored
		status = 200
		hdr.Del("Content-Range")
	case 2: // shifted start
		hdr.Set("Content-Range", fmt.Sprintf("bytes %d-%d/%d", lo+1+int64(st.Choice(100)), lo+int64(len(data)), total))
	case 3: // malformed or missing Content-Range
		if st.Bool(1, 2) {
			hdr.Del("Content-Range")
		} else {
			hdr.Set("Content-Range", simrt.Pick(st, "bytes x-y/z", "bytes 5-2/100", "items 0-1/2", "bytes */"))
		}
	case 4: // wrong total
		hdr.Set("Content-Range", fmt.Sprintf("bytes %d-%d/%d", lo, lo+int64(len(data))-1, total+1+int64(st.Choice(1000))))
	case 5:
		status = 416
		hdr.Set("Content-Range", fmt.Sprintf("bytes */%d", total))
		body.data = nil
		cl = 0
	case 6:
		status = simrt.Pick(st, 404, 500, 403, 302)
		body.data = []byte("no")
		cl = 2
	case 7: // the body ends early / fails mid-way
		if len(data) > 0 {
			body.failAt = st.Choice(len(data))
			if st.Bool(1, 2) {
				body.data = data[:body.failAt] // clean EOF before Content-Length: the transport reports unexpected EOF
			}
		}
	case 8: // no Content-Length, and more bytes than asked for
		cl = -1
		body.data = append(append([]byte(nil), data...), make([]byte, 1+st.Choice(40000))...)
		for i := len(data); i < len(body.data); i++ {
			body.data[i] = 0x77
		}
	case 9: // stall
		body.stallAt = st.Choice(len(data) + 1)
	case 12: // 206 whose Content-Range has the "unsatisfied" form, and the file from its start as body
		if rangeAsked {
			hdr.Set("Content-Range", fmt.Sprintf("bytes */%d", total))
			if lo > 0 && int64(len(data)) <= lo {
				// authentic bytes of the same file - those at offset 0, not the ones asked for
				if alt := rw.altBytes(req, int64(len(data))); alt != nil {
					body.data = alt
				}
			}
		}
	case 11: // fewer bytes than asked for, announced as such: a consistent, shorter 206
		if rangeAsked && len(data) > 1 {
			k := 1 + st.Choice(len(data)-1)
			body.data = data[:k]
			cl = int64(k)
			hdr.Set("Content-Range", fmt.Sprintf("bytes %d-%d/%d", lo, lo+int64(k)-1, total))
		}
	case 10: // wrong bytes of the right length
		d := append([]byte(nil), data...)
		if len(d) > 0 {
			d[st.Choice(len(d))] ^= 0x3c
		}
		body.data = d
	}
	if cl >= 0 {
		hdr.Set("Content-Length", strconv.FormatInt(cl, 10))
	}
	if b != 0 {
		simrt.Fault(fmt.Sprintf("webseed-behaviour-%d", b))
	}
	return MakeResponse(status, hdr, body, cl), nil
}

// altBytes returns the first n bytes of the file a GetRight request names.
func (rw *refWeb) altBytes(req *http.Request, n int64) []byte {
	p := strings.TrimPrefix(req.URL.Path, "/base/")
	f := rw.file(strings.Split(p, "/"))
	if f == nil || f.Length < n {
		return nil
	}
	return rw.spec.Bytes(f.Offset, n)
}

// noteHoldable: data for these torrent bytes was served (a 200 reply may
// even carry the whole file), so the system may come to hold the pieces.
func (rw *refWeb) noteHoldable(lo, hi int64) {
	for _, i := range rw.spec.LivePieces() {
		rw.w.noteHoldable(rw.spec, i)
	}
}

func (rw *refWeb) behaviour() int {
	if !rw.hostile {
		return 0
	}
	return rw.st.Weighted(6, 1, 1, 1, 1, 1, 1, 2, 1, 1, 1, 2, 2)
}

// getright serves files under /base/.
func (rw *refWeb) getright(w *World, req *http.Request, rec *HTTPRec) (*http.Response, error) {
	p := strings.TrimPrefix(req.URL.Path, "/base/")
	path := strings.Split(p, "/")
	r := wsRequest{path: path, lo: -1, hi: -1, tlo: -1, thi: -1, epoch: w.Epoch}
	f := rw.file(path)
	rng := req.Header.Get("Range")
	if f == nil || f.Pad {
		rw.reqs = append(rw.reqs, r)
		w.rc.Fail("C14", "request-mapping", "no-such-file", "GetRight request for %q, which is not a (non-padding) file of the torrent", req.URL.Path)
		return MakeResponse(404, nil, w.Body(req.Context(), nil), 0), nil
	}
	if n, _ := fmt.Sscanf(rng, "bytes=%d-%d", &r.lo, &r.hi); n != 2 || r.lo < 0 || r.hi < r.lo || r.hi >= f.Length {
		rw.reqs = append(rw.reqs, r)
		w.rc.Fail("C14", "request-mapping", "bad-range", "GetRight request for %q with Range %q; the file has %d bytes", req.URL.Path, rng, f.Length)
		return MakeResponse(416, nil, w.Body(req.Context(), nil), 0), nil
	}
	r.tlo, r.thi = f.Offset+r.lo, f.Offset+r.hi+1
	rw.noteHoldable(r.tlo, r.thi)
	b := rw.behaviour()
	if b == 1 && f.Length > 8<<20 {
		b = 6 // a file too large to materialise is not sent whole
	}
	r.behaviour = b
	rw.reqs = append(rw.reqs, r)
	if b == 1 {
		return rw.respond(req, rw.spec.Bytes(f.Offset, f.Length), f.Length, 0, false, b)
	}
	return rw.respond(req, rw.spec.Bytes(r.tlo, r.thi-r.tlo), f.Length, r.lo, true, b)
}

// hoffman serves BEP 17 requests: ?info_hash=..&piece=N&ranges=a-b (inclusive).
func (rw *refWeb) hoffman(w *World, req *http.Request, rec *HTTPRec) (*http.Response, error) {
	q := req.URL.Query()
	r := wsRequest{hoffman: true, tlo: -1, thi: -1, ranges: q.Get("ranges"), epoch: w.Epoch}
	r.piece, _ = strconv.ParseInt(q.Get("piece"), 10, 64)
	var a, b int64
	g := rw.spec.Geo
	if q.Get("info_hash") != string(rw.spec.InfoHash) || r.piece < 0 || r.piece >= int64(g.NPieces) {
		rw.reqs = append(rw.reqs, r)
		w.rc.Fail("C14", "request-mapping", "hoffman-piece", "Hoffman request %q does not name a piece of this torrent", req.URL.RawQuery)
		return MakeResponse(404, nil, w.Body(req.Context(), nil), 0), nil
	}
	if n, _ := fmt.Sscanf(r.ranges, "%d-%d", &a, &b); n != 2 || a < 0 || b < a {
		rw.reqs = append(rw.reqs, r)
		w.rc.Fail("C14", "request-mapping", "hoffman-range-syntax", "Hoffman request with ranges=%q", r.ranges)
		return MakeResponse(400, nil, w.Body(req.Context(), nil), 0), nil
	}
	pl := g.PieceLen(int(r.piece))
	if b >= pl {
		// BEP 17 ranges are inclusive byte ranges within the piece
		rw.reqs = append(rw.reqs, r)
		w.rc.Fail("C14", "request-mapping", "hoffman-range-beyond-piece", "Hoffman request for piece %d (%d bytes) with ranges=%q: the last byte requested is beyond the piece", r.piece, pl, r.ranges)
		return MakeResponse(416, nil, w.Body(req.Context(), nil), 0), nil
	}
	base := r.piece * g.PieceSize
	r.tlo, r.thi = base+a, base+b+1
	rw.noteHoldable(r.tlo, r.thi)
	bh := rw.behaviour()
	if bh >= 1 && bh <= 5 {
		bh = 0 // the Content-Range behaviours do not apply
	}
	r.behaviour = bh
	rw.reqs = append(rw.reqs, r)
	return rw.respond(req, rw.spec.Bytes(r.tlo, r.thi-r.tlo), 0, 0, false, bh)
}

// partition computes, independently of the code under test, the file
// ranges that make up torrent range [lo, hi).
type filePart struct {
	path   string
	lo, hi int64 // byte range within the file [lo, hi]
	pad    bool
}

func partition(spec *TorSpec, lo, hi int64) []filePart {
	if spec.Files == nil {
		return []filePart{{spec.Name, lo, hi - 1, false}}
	}
	var out []filePart
	for _, f := range spec.Files {
		a, b := max(lo, f.Offset), min(hi, f.Offset+f.Length)
		if a < b {
			out = append(out, filePart{spec.Name + "/" + strings.Join(f.Path, "/"), a - f.Offset, b - 1 - f.Offset, f.Pad})
		}
	}
	return out
}

func webseedMain(rc *RunCtx) {
	st := rc.St
	w := NewWorld(rc)
	defer w.Shutdown()
	kind := st.Choice(3) // 0 GetRight, 1 Hoffman, 2 both
	opts := SpecOpts{MaxPieces: 6, MultiFile: st.Choice(3), Big: st.Bool(1, 6), Huge: true}
	if kind != 1 {
		opts.URLList = []string{"http://ws.example/base/"}
	}
	if kind != 0 {
		opts.HTTPSeeds = []string{"http://hs.example/seed"}
	}
	spec := GenTorSpec(st, opts)
	rw := &refWeb{w: w, st: st, spec: spec, hostile: st.Bool(1, 2)}
	w.HTTP["ws.example"] = rw.getright
	w.HTTP["hs.example"] = rw.hoffman
	config.DefaultUseWebseeds = true
	config.SetIdleRate(0)
	config.PrefetchRate = float64(simrt.Pick(st, 0, 65536))
	t, err := w.AddTorrent(spec, false, "")
	if err != nil {
		rc.Fail("C14", "setup", "", "AddTorrent: %v", err)
		return
	}
	nws := len(t.Webseeds())
	rc.SetSample("setup", fmt.Sprintf("piece=%dK pieces=%d length=%d files=%d webseeds=%d (kind %d) hostile-server=%v", spec.Geo.PieceSize>>10, spec.Geo.NPieces, spec.Geo.Length, len(spec.Files), nws, kind, rw.hostile))
	g := spec.Geo
	component := st.Bool(1, 2)
	if component {
		// ---- B: single fetches of chosen ranges, bracketed by quiescent points
		nf := 1 + st.Choice(6)
		for k := 0; k < nf && !rc.Failed(); k++ {
			if !w.AwaitQuiet(30 * time.Second) {
				simrt.Probe("no-quiescent-point")
				return
			}
			lp := spec.LivePieces()
			i := lp[st.Choice(len(lp))]
			pl := g.PieceLen(i)
			nch := g.Chunks(i)
			c0 := st.Choice(nch)
			c1 := c0 + 1 + st.Choice(nch-c0)
			off := int64(c0) * chunkSize
			length := min(int64(c1)*chunkSize, pl) - off
			n := st.Choice(nws)
			_, isHoffman := anyHoffman(t, n)
			before := t.SimInFlight()
			_, bmBefore := t.Pieces.PieceBitmap(uint32(i))
			others := map[int]string{}
			for _, j := range lp {
				if j != i {
					_, b := t.Pieces.PieceBitmap(uint32(j))
					others[j] = b.String()
				}
			}
			first := len(rw.reqs)
			rc.Tracef("fetch piece %d [%d, %d) from web seed %d (hoffman=%v)", i, off, off+length, n, isHoffman)
			ctx, cancel := context.WithTimeout(context.Background(), time.Duration(simrt.Pick(st, 120, 120, 5))*time.Second)
			tor.SimWebseedFetch(ctx, t, n, uint32(i), uint32(off), uint32(length))
			cancel()
			rc.Progress()
			if !w.AwaitQuiet(30 * time.Second) {
				simrt.Probe("no-quiescent-point")
				return
			}
			// release: every reservation is back
			after := t.SimInFlight()
			for c := range before {
				if after[c] != before[c] {
					rc.Fail("C14", "release", "", "after the fetch of piece %d [%d, %d) ended, block %d is counted %d times in flight (before: %d)", i, off, off+length, c, after[c], before[c])
					rc.Fail("C09", "inflight", "web-seed-fetch", "after the web-seed fetch of piece %d [%d, %d) ended, block %d is counted %d times in flight (before: %d)", i, off, off+length, c, after[c], before[c])
					break
				}
			}
			// store: only blocks of the range may have appeared
			_, bmAfter := t.Pieces.PieceBitmap(uint32(i))
			for c := 0; c < nch; c++ {
				if bmAfter.Get(c) && !bmBefore.Get(c) && (c < c0 || c >= c1) && !t.Pieces.Complete(uint32(i)) {
					rc.Fail("C14", "store", "outside-range", "the fetch of piece %d blocks [%d, %d) stored block %d", i, c0, c1, c)
				}
			}
			// what is stored is stored where it belongs: unless the server
			// sent wrong bytes on purpose (behaviour 10) or bytes beyond what
			// was announced (8), a block that appeared holds the torrent's
			// bytes for that place
			corrupting := false
			for _, r := range rw.reqs[first:] {
				if r.behaviour == 10 || r.behaviour == 8 {
					corrupting = true
				}
			}
			if data := t.Pieces.SimData(i); !corrupting && data != nil && !t.Pieces.Complete(uint32(i)) {
				truth := spec.Piece(i)
				for c := 0; c < nch; c++ {
					lo, hi := c*chunkSize, min((c+1)*chunkSize, len(truth))
					if bmAfter.Get(c) && !bmBefore.Get(c) && hi <= len(data) && !bytes.Equal(data[lo:hi], truth[lo:hi]) {
						rc.Fail("C14", "store", "misplaced", "the fetch of piece %d blocks [%d, %d) stored in block %d bytes that are not the torrent's bytes for that block, although the server sent only authentic file content", i, c0, c1, c)
						break
					}
				}
			}
			for j, s := range others {
				if _, b := t.Pieces.PieceBitmap(uint32(j)); b.String() != s {
					rc.Fail("C14", "store", "other-piece", "the fetch of piece %d changed piece %d", i, j)
				}
			}
			// request mapping
			tlo := int64(i)*g.PieceSize + off
			thi := tlo + length
			got := rw.reqs[first:]
			if isHoffman {
				if len(got) > 0 {
					r := got[0]
					if r.piece != int64(i) || r.tlo != tlo || r.thi != thi {
						rc.Fail("C14", "request-mapping", "hoffman-range", "fetch of piece %d bytes [%d, %d): the Hoffman request names piece %d ranges=%q, which is bytes [%d, %d) of the torrent by BEP 17 (inclusive ranges)", i, off, off+length, r.piece, r.ranges, r.tlo-int64(i)*g.PieceSize, r.thi-int64(i)*g.PieceSize)
					}
				}
				continue
			}
			var want []filePart
			for _, p := range partition(spec, tlo, thi) {
				if !p.pad {
					want = append(want, p)
				}
			}
			for k, r := range got {
				if k >= len(want) {
					rc.Fail("C14", "request-mapping", "extra-request", "fetch of torrent bytes [%d, %d): request %d (%s bytes %d-%d) is not part of the range's partition %v", tlo, thi, k, strings.Join(r.path, "/"), r.lo, r.hi, want)
					break
				}
				wp := want[k]
				if strings.Join(r.path, "/") != wp.path || r.lo != wp.lo || r.hi != wp.hi {
					rc.Fail("C14", "request-mapping", "wrong-range", "fetch of torrent bytes [%d, %d): request %d is %s bytes %d-%d, the partition says %s bytes %d-%d", tlo, thi, k, strings.Join(r.path, "/"), r.lo, r.hi, wp.path, wp.lo, wp.hi)
					break
				}
			}
			fresh := !t.Pieces.Complete(uint32(i))
			for c := c0; c < c1; c++ {
				if bmBefore.Get(c) {
					fresh = false // part of the range was there already: the fetch may stop early
				}
			}
			if !rw.hostile && fresh && len(got) != len(want) {
				rc.Fail("C14", "request-mapping", "incomplete", "fetch of torrent bytes [%d, %d) from an honest server made %d requests, the partition has %d parts: %v", tlo, thi, len(got), len(want), want)
			}
			if !rw.hostile {
				// everything asked for arrived: the blocks are there
				_, bm := t.Pieces.PieceBitmap(uint32(i))
				for c := c0; c < c1; c++ {
					if !bm.Get(c) && !t.Pieces.Complete(uint32(i)) {
						rc.Fail("C14", "store", "missing", "after an honest fetch of piece %d blocks [%d, %d) block %d is absent", i, c0, c1, c)
						break
					}
				}
			}
		}
		return
	}
	// ---- A: system level: a reader creates demand, only web seeds can satisfy it
	w.StartQuiescer(3 * time.Second)
	ctx, cancel := context.WithCancel(context.Background())
	defer cancel()
	off := int64(st.Choice(int(g.Length)))
	if spec.Sparse {
		// only the pieces at the 4 GiB mark and beyond can be completed
		lp := spec.LivePieces()
		tail := lp[0]
		for k := 1; k < len(lp); k++ {
			if lp[k] != lp[k-1]+1 {
				tail = lp[k]
			}
		}
		off = int64(tail)*g.PieceSize + int64(st.Choice(int(g.Length-int64(tail)*g.PieceSize)))
	}
	length := g.Length - off
	model := spec.Bytes(off, spec.Geo.Length-off)
	done := false
	simrt.GoNamed("reader", func() {
		r := t.NewReader(ctx, off, length)
		defer r.Close()
		buf := make([]byte, 30000)
		pos := int64(0)
		for !w.stopped && pos < length {
			n, err := r.Read(buf)
			if n > 0 {
				rc.Progress()
				if string(buf[:n]) != string(model[pos:pos+int64(n)]) {
					rc.Fail("C14", "content", "", "data fetched from the web seeds and read back at position %d differs from the torrent's content", pos)
					return
				}
				pos += int64(n)
			}
			if err != nil {
				break
			}
			if n == 0 {
				simrt.Sleep(50 * time.Millisecond)
			}
		}
		done = pos >= length
	})
	limit := time.Duration(len(spec.LivePieces())+2) * 10 * time.Minute
	if spec.Sparse {
		limit = 20 * time.Minute // every simulated second of a torrent with tens of thousands of pieces is expensive
	}
	start := time.Now()
	for !done && time.Since(start) < limit && !rc.Failed() {
		simrt.Sleep(5 * time.Second)
		if st.Bool(1, 4) && w.AwaitQuiet(10*time.Second) && t.SimWebseedsIdle() {
			for c, n := range t.SimInFlight() {
				if n != 0 {
					rc.Fail("C14", "release", "system", "no fetch is running and no peer is connected, but block %d is counted %d times in flight", c, n)
					rc.Fail("C09", "inflight", "web-seed-system", "no web-seed fetch is running and no peer is connected, but block %d is counted %d times in flight", c, n)
					break
				}
			}
		}
	}
	if !done && !rw.hostile && !rc.Failed() {
		rc.Fail("C14", "liveness", "", "with conforming web seeds and no other source the reader has not finished after %v", limit)
	}
}

func anyHoffman(t *tor.Torrent, n int) (string, bool) {
	ws := t.Webseeds()[n]
	return ws.URL(), strings.Contains(fmt.Sprintf("%T", ws), "Hoffman")
}
