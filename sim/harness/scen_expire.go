package harness

import (
	"context"
	"fmt"
	"time"

	"github.com/jech/storrent/alloc"
	"github.com/jech/storrent/config"
	"github.com/jech/storrent/tor"
	"github.com/jech/storrent/zzsim/simnet"
	"github.com/jech/storrent/zzsim/simrt"
)

// C03, policy level: the global eviction pass (tor.Expire) over several
// torrents, racing with hashing, downloads and deletions.

func init() {
	Register(&Scenario{
		Name: "expire-policy", Props: []string{"C03"}, CrashTo: "C03",
		Horizon: 60 * time.Hour, MaxSteps: 2000000, Weight: 1, Main: expirePolicyMain,
		NontrivialNeedsFault: true,
	})
}

func expirePolicyMain(rc *RunCtx) {
	st := rc.St
	w := NewWorld(rc)
	defer w.Shutdown()
	config.SetIdleRate(uint32(simrt.Pick(st, 0, 65536)))
	nt := 1 + st.Choice(4)
	type tinfo struct {
		t    *tor.Torrent
		spec *TorSpec
		dead bool
		peer *RefPeer
	}
	var ts []*tinfo
	w.Link = func() (simnet.LinkCfg, simnet.LinkCfg) { return drawSysLink(st) }
	var total int64
	for i := 0; i < nt; i++ {
		spec := GenTorSpec(st, SpecOpts{MaxPieces: 6, Big: st.Bool(1, 4), MultiFile: 1, Name: fmt.Sprintf("t%d", i)})
		t, err := w.AddTorrent(spec, false, "")
		if err != nil {
			rc.Fail("C03", "setup", "", "AddTorrent: %v", err)
			return
		}
		ti := &tinfo{t: t, spec: spec}
		ts = append(ts, ti)
		var held []int
		for j := 0; j < spec.Geo.NPieces; j++ {
			if st.Bool(2, 3) {
				held = append(held, j)
			}
		}
		w.Preload(t, spec, held)
		total += int64(len(held)) * spec.Geo.PieceSize
		if st.Bool(2, 3) {
			// a peer that sees our advertisements, and a seed we may download from
			cfg := drawSeedCfg(st, fmt.Sprintf("peer%d", i), 7000+i)
			cfg.Ext = true
			ti.peer = w.NewPeer(spec, cfg)
			ti.peer.Connect()
		}
		if st.Bool(1, 2) {
			ctx, cancel := context.WithCancel(context.Background())
			defer cancel()
			simrt.GoNamed(fmt.Sprintf("reader%d", i), func() {
				r := t.NewReader(ctx, 0, spec.Geo.Length)
				defer r.Close()
				buf := make([]byte, 30000)
				for !w.stopped {
					n, err := r.Read(buf)
					if err != nil {
						return
					}
					if n == 0 {
						simrt.Sleep(100 * time.Millisecond)
					} else {
						simrt.Sleep(time.Duration(st.Choice(3000)) * time.Millisecond)
					}
				}
			})
		}
	}
	// the mark is drawn so that the high mark is crossed
	config.MemoryMark = max(total*int64(1+st.Choice(8))/8, 16384)
	rc.SetSample("setup", fmt.Sprintf("%d torrents, %d bytes preloaded, memory mark %d (low %d)", nt, total, config.MemoryMark, config.MemoryLowMark()))
	w.StartQuiescer(3 * time.Second)
	nsteps := 3 + st.Choice(10)
	for k := 0; k < nsteps && !rc.Failed(); k++ {
		simrt.Sleep(time.Duration(st.Choice(5000)) * time.Millisecond)
		switch st.Weighted(6, 2, 2, 1) {
		case 0:
			r := tor.Expire()
			if r < 0 {
				simrt.Fault("eviction-pass")
				rc.Progress()
			}
		case 1: // a torrent is deleted, possibly while a pass runs
			var alive []*tinfo
			for _, ti := range ts {
				if !ti.dead {
					alive = append(alive, ti)
				}
			}
			if len(alive) > 0 {
				ti := alive[st.Choice(len(alive))]
				ti.dead = true
				simrt.Fault("torrent-deleted")
				simrt.GoNamed("killer", func() {
					ctx, cancel := context.WithTimeout(context.Background(), time.Minute)
					ti.t.Kill(ctx)
					cancel()
				})
				if st.Bool(1, 2) {
					tor.Expire()
				}
			}
		case 2: // time passes: access times age (the 7200 s rule)
			simrt.Sleep(time.Duration(simrt.Pick(st, 100, 3000, 7300)) * time.Second)
			for _, ti := range ts {
				if !ti.dead && st.Bool(1, 2) {
					ti.t.Pieces.UpdateTime(uint32(st.Choice(ti.spec.Geo.NPieces)))
				}
			}
		case 3:
			config.MemoryMark = max(config.MemoryMark*int64(1+st.Choice(4))/4, 16384)
			simrt.Fault("mark-lowered")
		}
		if st.Bool(1, 2) && w.AwaitQuiet(10*time.Second) {
			// accounting: what is reported equals what the pieces hold
			var sum int64
			for _, ti := range ts {
				for _, b := range ti.t.Pieces.SimBuffers() {
					sum += int64(b)
				}
			}
			if b := alloc.Bytes(); b != sum {
				rc.Fail("C03", "accounting", "policy", "alloc.Bytes()=%d but the torrents' piece buffers total %d", b, sum)
			}
			// what is no longer held is no longer advertised
			for _, ti := range ts {
				if ti.dead || chClosed(ti.t.Done) {
					continue
				}
				have := ti.t.Pieces.Bitmap()
				for _, p := range ti.t.SimPeers() {
					mine := p.SimMyBitmap()
					for j := 0; j < ti.spec.Geo.NPieces; j++ {
						if mine.Get(j) && !have.Get(j) {
							rc.Fail("C03", "still-advertised", "", "torrent %s: piece %d is not held any more but is still advertised to a peer", ti.spec.Name, j)
						}
					}
				}
			}
		}
	}
	if rc.Failed() {
		return
	}
	// a final pass with nothing else going on reaches the low mark
	for _, ti := range ts {
		if ti.peer != nil {
			ti.peer.Disconnect(false)
		}
	}
	simrt.Sleep(10 * time.Second)
	if w.AwaitQuiet(30 * time.Second) {
		for i := 0; i < 12 && alloc.Bytes() >= config.MemoryHighMark(); i++ {
			tor.Expire()
			simrt.Sleep(2 * time.Second)
			w.AwaitQuiet(10 * time.Second)
		}
		if b := alloc.Bytes(); b >= config.MemoryHighMark() && config.IdleRate() == 0 {
			rc.Fail("C03", "expire-target", "policy", "after repeated eviction passes with nothing else running alloc.Bytes()=%d is still at or above the high mark %d", b, config.MemoryHighMark())
		}
	}
	for _, ti := range ts {
		if !ti.dead {
			ctx, cancel := context.WithTimeout(context.Background(), time.Minute)
			ti.t.Kill(ctx)
			cancel()
		}
	}
	simrt.Sleep(5 * time.Second)
	if b := alloc.Bytes(); b != 0 {
		rc.Fail("C03", "released", "policy", "alloc.Bytes()=%d after every torrent was deleted", b)
	}
}
