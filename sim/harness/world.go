package harness

import (
	"bytes"
	"context"
	"errors"
	"fmt"
	"io"
	"net"
	"net/http"
	"net/netip"
	"strings"
	"time"

	"github.com/jech/storrent/config"
	"github.com/jech/storrent/crypto"
	"github.com/jech/storrent/httpclient"
	"github.com/jech/storrent/peer"
	"github.com/jech/storrent/tor"
	"github.com/jech/storrent/zzsim/simnet"
	"github.com/jech/storrent/zzsim/simrt"
)

func init() {
	extraResets = append(extraResets, tor.SimReset, peer.SimReset)
}

// World is everything outside the process under test: the network, the
// remote peers, trackers and web servers.

type DialRec struct {
	At      time.Duration
	Epoch   int
	Network string
	Addr    string
	Via     string
	Result  string
}

type HTTPRec struct {
	At     time.Duration
	Epoch  int
	Method string
	URL    string
	Host   string
	Range  string
	Via    string
	Net    string
	Status int
	Err    string
	Header http.Header
}

type HTTPHandler func(w *World, req *http.Request, rec *HTTPRec) (*http.Response, error)

type World struct {
	rc *RunCtx
	st *simrt.Stream

	SysIP     string
	SysIP6    string // "" = no IPv6 connectivity
	SysPort   int
	Listeners map[string]func(c *simnet.Conn, via string) // "ip:port" -> accept
	Blackhole map[string]bool                             // dials that hang until the context expires
	Dials     []DialRec
	HTTP      map[string]HTTPHandler // host[:port] -> handler
	HTTPLog   []HTTPRec
	UDP       map[string]UDPHandler
	Conns     []*simnet.Conn // system-side ends of every stream connection
	Link      func() (out, in simnet.LinkCfg)
	Torrents  []*tor.Torrent
	Peers     []*RefPeer
	Epoch     int                     // number of quiescent points observed so far
	Holdable  map[string]map[int]bool // per info-hash: pieces the system can possibly hold
	ephemeral int
	cancel    []context.CancelFunc
	stopped   bool
}

func NewWorld(rc *RunCtx) *World {
	w := &World{
		rc: rc, st: rc.St, SysIP: "198.51.100.7", SysPort: 6881,
		Listeners: map[string]func(*simnet.Conn, string){}, Blackhole: map[string]bool{},
		HTTP: map[string]HTTPHandler{}, UDP: map[string]UDPHandler{}, ephemeral: 40000,
	}
	w.Link = func() (simnet.LinkCfg, simnet.LinkCfg) { return simnet.LinkCfg{}, simnet.LinkCfg{} }
	simrt.SetWorld(w)
	config.ProtocolPort = w.SysPort
	config.SetExternalIPv4Port(w.SysPort, true)
	config.SetExternalIPv4Port(w.SysPort, false)
	peer.UploadEstimator.Init(3 * time.Second)
	peer.UploadEstimator.Start()
	peer.DownloadEstimator.Init(3 * time.Second)
	peer.DownloadEstimator.Start()
	return w
}

func (w *World) nextPort() int {
	w.ephemeral++
	return w.ephemeral
}

// Dial implements simrt.World: every connection the code under test opens.
func (w *World) Dial(ctx context.Context, network, addr, via string) (net.Conn, error) {
	rec := DialRec{At: w.rc.S.Now(), Epoch: w.Epoch, Network: network, Addr: addr, Via: via}
	done := func(res string) { rec.Result = res; w.Dials = append(w.Dials, rec) }
	if strings.HasPrefix(network, "udp") {
		if strings.HasPrefix(addr, "[2400:cb00:2048:1::6814:155]") {
			// peer.getIPv6: a connected UDP socket, only LocalAddr is used
			if w.SysIP6 == "" {
				done("no-ipv6")
				return nil, &net.OpError{Op: "dial", Net: network, Err: errors.New("network is unreachable")}
			}
			done("ipv6-probe")
			return &probeConn{local: &net.UDPAddr{IP: net.ParseIP(w.SysIP6), Port: w.nextPort()}}, nil
		}
		h := w.UDP[addr]
		if h == nil {
			done("udp-no-such-host")
			return nil, &net.OpError{Op: "dial", Net: network, Err: errors.New("no such host")}
		}
		done("udp")
		return newUDPConn(w, network, addr, h), nil
	}
	// stream connection
	if d := time.Duration(w.st.Choice(50)) * time.Millisecond; d > 0 {
		simrt.Sleep(d)
	}
	if err := ctx.Err(); err != nil {
		done("cancelled")
		return nil, err
	}
	if w.Blackhole[addr] {
		simrt.Fault("dial-blackhole")
		simrt.Y(-1)
		<-ctx.Done()
		simrt.Y(-1)
		done("timeout")
		return nil, &net.OpError{Op: "dial", Net: network, Err: context.DeadlineExceeded}
	}
	l := w.Listeners[addr]
	if l == nil {
		simrt.Fault("dial-refused")
		done("refused")
		return nil, simnet.ErrRefused
	}
	out, in := w.Link()
	ap, err := netip.ParseAddrPort(addr)
	if err != nil {
		done("bad-address")
		return nil, err
	}
	local := simnet.TCPAddr(w.SysIP, w.nextPort())
	if ap.Addr().Is6() && w.SysIP6 != "" {
		local = simnet.TCPAddr(w.SysIP6, w.nextPort())
	}
	sys, far := simnet.Pipe(local, &net.TCPAddr{IP: net.IP(ap.Addr().AsSlice()), Port: int(ap.Port())}, out, in)
	w.Conns = append(w.Conns, sys)
	done("connected")
	l(far, via)
	return sys, nil
}

// Inbound creates a connection from a remote address to the system's
// listening port and runs the accept path of package main on it.
func (w *World) Inbound(from *net.TCPAddr) *simnet.Conn {
	out, in := w.Link()
	sys, far := simnet.Pipe(simnet.TCPAddr(w.SysIP, w.SysPort), from, out, in)
	w.Conns = append(w.Conns, sys)
	simrt.Go(-1, func() {
		// storrent.go: listen()
		err := tor.Server(sys, crypto.DefaultOptions(config.PreferEncryption, config.ForceEncryption))
		if err != nil {
			simrt.Logf("tor.Server: %v", err)
		}
	})
	return far
}

type probeConn struct {
	local net.Addr
}

func (c *probeConn) Read(p []byte) (int, error)         { return 0, io.EOF }
func (c *probeConn) Write(p []byte) (int, error)        { return len(p), nil }
func (c *probeConn) Close() error                       { return nil }
func (c *probeConn) LocalAddr() net.Addr                { return c.local }
func (c *probeConn) RemoteAddr() net.Addr               { return c.local }
func (c *probeConn) SetDeadline(t time.Time) error      { return nil }
func (c *probeConn) SetReadDeadline(t time.Time) error  { return nil }
func (c *probeConn) SetWriteDeadline(t time.Time) error { return nil }

// HTTPDo implements simrt.World: every HTTP request of the code under test.
func (w *World) HTTPDo(c *http.Client, req *http.Request) (*http.Response, error) {
	netw, via, _ := httpclient.SimProxyOf(c)
	rec := HTTPRec{At: w.rc.S.Now(), Epoch: w.Epoch, Method: req.Method, URL: req.URL.String(), Host: req.URL.Host, Range: req.Header.Get("Range"), Via: via, Net: netw, Header: req.Header.Clone()}
	simrt.Y(-1)
	if err := req.Context().Err(); err != nil {
		rec.Err = err.Error()
		w.HTTPLog = append(w.HTTPLog, rec)
		return nil, err
	}
	h := w.HTTP[req.URL.Host]
	if h == nil {
		rec.Err = "no such host"
		w.HTTPLog = append(w.HTTPLog, rec)
		return nil, &net.OpError{Op: "dial", Net: "tcp", Err: errors.New("no such host")}
	}
	// the real client has a 50 s overall timeout
	ctx := req.Context()
	if c != nil && c.Timeout > 0 {
		var cancel context.CancelFunc
		ctx, cancel = context.WithTimeout(ctx, c.Timeout)
		_ = cancel // released when the context expires; the bubble's clock makes that cheap
		req = req.WithContext(ctx)
	}
	resp, err := h(w, req, &rec)
	if err != nil {
		rec.Err = err.Error()
	} else {
		rec.Status = resp.StatusCode
		resp.Request = req
	}
	w.HTTPLog = append(w.HTTPLog, rec)
	return resp, err
}

// MakeResponse builds a response the way net/http's transport would hand it up.
func MakeResponse(status int, hdr http.Header, body io.ReadCloser, contentLength int64) *http.Response {
	if hdr == nil {
		hdr = http.Header{}
	}
	return &http.Response{
		Status: fmt.Sprintf("%d %s", status, http.StatusText(status)), StatusCode: status,
		Proto: "HTTP/1.1", ProtoMajor: 1, ProtoMinor: 1, Header: hdr, Body: body, ContentLength: contentLength,
	}
}

// simBody is a response body with fault injection: it delivers data in
// reads of drawn sizes and can fail, stall or end early at a chosen byte.
type simBody struct {
	w       *World
	ctx     context.Context
	data    []byte
	pos     int
	maxRead int   // 0: any
	failAt  int   // >=0: error when pos reaches it
	stallAt int   // >=0: blocks until the context is done
	failErr error // error to return at failAt (default: unexpected EOF)
	closed  bool
}

func (b *simBody) Read(p []byte) (int, error) {
	simrt.Y(-1)
	if b.closed {
		return 0, errors.New("http: read on closed response body")
	}
	if len(p) == 0 {
		return 0, nil
	}
	if err := b.ctx.Err(); err != nil {
		return 0, err
	}
	if b.stallAt >= 0 && b.pos >= b.stallAt {
		simrt.Fault("http-body-stall")
		simrt.Y(-1)
		<-b.ctx.Done()
		simrt.Y(-1)
		return 0, b.ctx.Err()
	}
	if b.failAt >= 0 && b.pos >= b.failAt {
		simrt.Fault("http-body-error")
		if b.failErr != nil {
			return 0, b.failErr
		}
		return 0, io.ErrUnexpectedEOF
	}
	if b.pos >= len(b.data) {
		return 0, io.EOF
	}
	n := len(p)
	if n > len(b.data)-b.pos {
		n = len(b.data) - b.pos
	}
	if m := max(b.maxRead, len(b.data)/256); b.maxRead > 0 && n > m {
		// short reads; a long body is still delivered in a few hundred reads
		n = 1 + b.w.st.Choice(m)
	}
	if b.failAt >= 0 && b.pos+n > b.failAt {
		n = b.failAt - b.pos
	}
	if b.stallAt >= 0 && b.pos+n > b.stallAt {
		n = b.stallAt - b.pos
	}
	copy(p, b.data[b.pos:b.pos+n])
	b.pos += n
	if n == 0 {
		return b.Read(p)
	}
	return n, nil
}

func (b *simBody) Close() error { b.closed = true; return nil }

func (w *World) Body(ctx context.Context, data []byte) *simBody {
	return &simBody{w: w, ctx: ctx, data: data, failAt: -1, stallAt: -1}
}

// ---- datagram sockets --------------------------------------------------------------

// UDPHandler receives one datagram sent by the system and returns the
// datagrams to deliver back, each with a delay.
type UDPReply struct {
	Data  []byte
	Delay time.Duration
}
type UDPHandler func(w *World, from *udpConn, data []byte) []UDPReply

type udpConn struct {
	w      *World
	net    string
	addr   string
	h      UDPHandler
	q      [][]byte
	rq     simrt.WaitQ
	rdl    time.Time
	closed bool
	local  net.Addr
	Sent   int
}

func newUDPConn(w *World, network, addr string, h UDPHandler) *udpConn {
	return &udpConn{w: w, net: network, addr: addr, h: h, local: &net.UDPAddr{IP: net.ParseIP(w.SysIP), Port: w.nextPort()}}
}

func (c *udpConn) Write(p []byte) (int, error) {
	simrt.Y(-1)
	if c.closed {
		return 0, net.ErrClosed
	}
	c.Sent++
	data := bytes.Clone(p)
	for _, r := range c.h(c.w, c, data) {
		r := r
		simrt.Cur().After(r.Delay, func() {
			if !c.closed {
				c.q = append(c.q, r.Data)
				c.rq.Wake()
			}
		})
	}
	return len(p), nil
}

func (c *udpConn) Read(p []byte) (int, error) {
	simrt.Y(-1)
	for {
		if c.closed {
			return 0, net.ErrClosed
		}
		if len(c.q) > 0 {
			d := c.q[0]
			c.q = c.q[1:]
			n := copy(p, d) // a datagram longer than the buffer is truncated
			return n, nil
		}
		var to time.Duration
		if !c.rdl.IsZero() {
			to = time.Until(c.rdl)
			if to <= 0 {
				return 0, &net.OpError{Op: "read", Net: c.net, Err: timeoutErr{}}
			}
		}
		c.rq.Wait(to)
	}
}

type timeoutErr struct{}

func (timeoutErr) Error() string   { return "i/o timeout" }
func (timeoutErr) Timeout() bool   { return true }
func (timeoutErr) Temporary() bool { return true }

func (c *udpConn) Close() error {
	c.closed = true
	c.rq.Wake()
	return nil
}
func (c *udpConn) LocalAddr() net.Addr  { return c.local }
func (c *udpConn) RemoteAddr() net.Addr { return c.local }
func (c *udpConn) SetDeadline(t time.Time) error {
	c.rdl = t
	c.rq.Wake()
	return nil
}
func (c *udpConn) SetReadDeadline(t time.Time) error  { return c.SetDeadline(t) }
func (c *udpConn) SetWriteDeadline(t time.Time) error { return nil }

// ---- the system under test ------------------------------------------------------------

// AddTorrent parses the generated metainfo with the real code and starts
// the torrent (what package main does for a command-line argument).
func (w *World) AddTorrent(spec *TorSpec, magnet bool, proxy string) (*tor.Torrent, error) {
	var t *tor.Torrent
	var err error
	if magnet {
		t, err = tor.ReadMagnet(proxy, spec.MagnetURI())
	} else {
		t, err = tor.ReadTorrent(proxy, bytes.NewReader(spec.Torrent))
	}
	if err != nil || t == nil {
		return nil, fmt.Errorf("parsing generated metainfo: %v", err)
	}
	ctx, cancel := context.WithCancel(context.Background())
	w.cancel = append(w.cancel, cancel)
	t2, err := tor.AddTorrent(ctx, t)
	if err != nil {
		return nil, err
	}
	w.Torrents = append(w.Torrents, t2)
	return t2, nil
}

// Preload stores verified pieces through the exported store calls, the way
// a download would, and announces them to the torrent.
func (w *World) Preload(t *tor.Torrent, spec *TorSpec, pieces []int) {
	for _, i := range pieces {
		w.noteHoldable(spec, i)
		p := spec.Piece(i)
		for off := 0; off < len(p); off += chunkSize {
			end := min(off+chunkSize, len(p))
			t.Pieces.AddData(uint32(i), uint32(off), p[off:end], ^uint32(0))
		}
		done, _, _ := t.Pieces.Finalise(uint32(i), t.PieceHashes[i])
		if done {
			t.Have(uint32(i), true)
		}
	}
}

// Quiet is the quiescence predicate: nothing in transit on any connection,
// nothing queued between the actors of any torrent.  It is evaluated only
// when no goroutine can run.
func (w *World) Quiet() bool {
	for _, c := range w.Conns {
		// what the system wrote is still delivered after it closed its end
		if c.PeerPending() > 0 && !c.PeerClosed() {
			return false
		}
		if c.Closed() {
			continue // nobody will read what is pending for the system
		}
		if c.Pending() > 0 {
			return false
		}
	}
	for _, t := range w.Torrents {
		if chClosed(t.Done) {
			continue // a dead torrent's queue is never read again
		}
		if t.SimEventLen() > 0 {
			return false
		}
		if t.Pieces.SimAnyBusy() {
			return false // a hash is under way (it takes simulated time): its outcome is still to come
		}
		for _, p := range t.SimPeers() {
			if p.SimPending() > 0 {
				return false
			}
		}
	}
	for _, p := range w.Peers {
		if p.busy() {
			return false
		}
	}
	return true
}

// AwaitQuiet parks the caller until a quiescent point (at most maxWait of
// simulated time); on success the epoch advances and the caller runs alone
// until it next blocks or yields.
func (w *World) AwaitQuiet(maxWait time.Duration) bool {
	ok := simrt.Quiesce(w.Quiet, maxWait)
	if ok {
		w.Epoch++
		simrt.Probe("quiescent-point")
		if w.rc.S.LogOn() {
			d := ""
			for i, c := range w.Conns {
				d += fmt.Sprintf(" c%d[%v closed=%v in=%d out=%d]", i, c.RemoteAddr(), c.Closed(), c.Pending(), c.PeerPending())
			}
			w.rc.S.Logf("quiescent point: epoch %d%s", w.Epoch, d)
		}
	}
	return ok
}

// LoopStuck reports whether the event loop of a live torrent fails to answer
// a status query within a simulated minute (it answers in microseconds
// when it runs at all).  It is what "no quiescent point" must be told apart
// from: events pile up in the queue of a loop that is blocked for ever.
func (w *World) LoopStuck(t *tor.Torrent) bool {
	if chClosed(t.Done) {
		return false
	}
	answered := false
	simrt.GoNamed("loop-probe", func() {
		t.GetStats()
		answered = true
	})
	for k := 0; k < 60 && !answered; k++ {
		simrt.Sleep(time.Second)
	}
	return !answered && !chClosed(t.Done)
}

// StartQuiescer runs an actor that establishes quiescent points regularly.
func (w *World) StartQuiescer(every time.Duration) {
	simrt.GoNamed("quiescer", func() {
		for !w.stopped {
			simrt.Sleep(every/2 + time.Duration(w.st.Choice(int(every/time.Millisecond)))*time.Millisecond)
			if w.stopped {
				return
			}
			w.AwaitQuiet(every)
		}
	})
}

// Shutdown ends everything the world started, so that goroutines exit.
func (w *World) Shutdown() {
	w.stopped = true
	for _, p := range w.Peers {
		p.Stop()
	}
	for _, t := range w.Torrents {
		ctx, cancel := context.WithTimeout(context.Background(), 30*time.Second)
		t.Kill(ctx)
		cancel()
	}
	for _, c := range w.cancel {
		c()
	}
	simrt.Sleep(2 * time.Second)
}

// drawSysLink draws the two directions of a connection of the system:
// mostly well-behaved, with varied latency, sometimes re-segmented.
func drawSysLink(st *simrt.Stream) (simnet.LinkCfg, simnet.LinkCfg) {
	one := func() simnet.LinkCfg {
		var c simnet.LinkCfg
		c.Seg = st.Weighted(6, 2, 2)
		c.Latency = time.Duration(simrt.Pick(st, 0, 1, 10, 80, 300)) * time.Millisecond
		if st.Bool(1, 4) {
			c.Jitter = time.Duration(1+st.Choice(30)) * time.Millisecond
		}
		if st.Bool(1, 6) {
			// a narrow window: the writer blocks early, queues behind it
			// fill; never so narrow for the latency that a block takes
			// longer than the liveness bounds allow (>= 6 kB/s)
			c.Window = simrt.Pick(st, 4096, 512, 16384, 64)
			if c.Window == 64 && c.Latency > 10*time.Millisecond {
				c.Window = 4096
			}
			if c.Window == 512 && c.Latency > 80*time.Millisecond {
				c.Window = 4096
			}
		}
		return c
	}
	return one(), one()
}

// MayHold reports whether the system can possibly hold piece i: it was
// preloaded, or some reference peer or web seed has sent data for it.
func (w *World) MayHold(spec *TorSpec, i int) bool {
	return w.Holdable[string(spec.InfoHash)][i]
}

func (w *World) noteHoldable(spec *TorSpec, i int) {
	if w.Holdable == nil {
		w.Holdable = map[string]map[int]bool{}
	}
	m := w.Holdable[string(spec.InfoHash)]
	if m == nil {
		m = map[int]bool{}
		w.Holdable[string(spec.InfoHash)] = m
	}
	m[i] = true
}
