package harness

import (
	"context"
	"errors"
	"fmt"
	"github.com/jech/storrent/protocol"
	"io"
	"net/http"
	"net/http/httptest"
	"net/netip"
	"sort"
	"time"

	"github.com/jech/storrent/alloc"
	"github.com/jech/storrent/config"
	"github.com/jech/storrent/hash"
	"github.com/jech/storrent/known"
	"github.com/jech/storrent/peer"
	"github.com/jech/storrent/tor"
	"github.com/jech/storrent/zzsim/simnet"
	"github.com/jech/storrent/zzsim/simrt"
)

// C10 (piece requests: wake-ups and priorities) and C17 (lifecycle: no
// call hangs, deletion is complete).

func init() {
	Register(&Scenario{
		Name: "requests", Knobs: true, Props: []string{"C10"}, CrashTo: "C10",
		Horizon: 3 * time.Hour, MaxSteps: 2000000, Weight: 1, Main: requestsMain,
	})
	Register(&Scenario{
		Name: "lifecycle", Knobs: true, Props: []string{"C17"}, CrashTo: "",
		Horizon: 3 * time.Hour, MaxSteps: 2000000, Weight: 1, Main: lifecycleMain,
	})
}

// ---- C10 -------------------------------------------------------------------------------

type waiter struct {
	consumer int
	piece    int
	prio     int8
	ch       <-chan struct{}
	tick     uint64 // when Request returned
	seen     bool   // the consumer has observed the close
}

type reqEnv struct {
	rc        *RunCtx
	w         *World
	t         *tor.Torrent
	spec      *TorSpec
	model     map[int][]int8 // acknowledged priorities per piece
	waiting   []*waiter
	evictions map[int][]uint64 // ticks at which a complete piece was evicted
	readers   int
	faultsOn  bool
}

func (e *reqEnv) evict() {
	simrt.Fault("evict-all")
	e.t.Pieces.Expire(0, nil, func(i uint32) {
		e.evictions[int(i)] = append(e.evictions[int(i)], e.rc.Tick())
		e.t.Have(i, false)
	})
}

func chClosed(ch <-chan struct{}) bool {
	select {
	case <-ch:
		return true
	default:
		return false
	}
}

func (e *reqEnv) checkTable(when string) {
	prios, _ := e.t.SimRequested()
	if e.readers == 0 {
		for i := 0; i < e.spec.Geo.NPieces; i++ {
			got := append([]int8(nil), prios[uint32(i)]...)
			want := append([]int8(nil), e.model[i]...)
			sort.Slice(got, func(a, b int) bool { return got[a] < got[b] })
			sort.Slice(want, func(a, b int) bool { return want[a] < want[b] })
			if fmt.Sprint(got) != fmt.Sprint(want) {
				class := "leaked"
				if len(got) < len(want) {
					class = "lost"
				}
				e.rc.Fail("C10", "priorities", class, "piece %d: the torrent holds priorities %v, consumers hold %v (%s)", i, got, want, when)
				return
			}
		}
	}
	// no lost wake-up: a piece that is complete now has no pending waiter
	for _, wt := range e.waiting {
		if wt.seen || wt.ch == nil {
			continue
		}
		if e.t.Pieces.Complete(uint32(wt.piece)) && !chClosed(wt.ch) {
			e.rc.Fail("C10", "lost-wakeup", "", "piece %d is verified and everything has come to rest, but the channel consumer %d obtained for it is still open (%s)", wt.piece, wt.consumer, when)
			return
		}
	}
}

func (e *reqEnv) consumer(c int, nops int) {
	rc, st, t := e.rc, e.rc.St, e.t
	np := e.spec.Geo.NPieces
	type held struct {
		piece int
		prio  int8
		w     *waiter
	}
	var mine []held
	withdraw := func(k int) {
		h := mine[k]
		mine = append(mine[:k], mine[k+1:]...)
		ok, _, err := t.Request(uint32(h.piece), h.prio, false, false)
		if err != nil || !ok {
			rc.Fail("C10", "withdraw", "", "withdrawing priority %d of piece %d: %v, %v", h.prio, h.piece, ok, err)
			return
		}
		// remove one instance from the model
		l := e.model[h.piece]
		for j, p := range l {
			if p == h.prio {
				e.model[h.piece] = append(l[:j:j], l[j+1:]...)
				break
			}
		}
		if h.w != nil {
			h.w.seen = true // abandoned
		}
	}
	for op := 0; op < nops && !rc.Failed(); op++ {
		simrt.Sleep(time.Duration(st.Choice(3000)) * time.Millisecond)
		switch k := st.Weighted(6, 3, 2); {
		case k == 0 || len(mine) == 0:
			i := st.Choice(np)
			prio := int8(simrt.Pick(st, 1, 0, -1, 2, 5))
			want := st.Bool(2, 3)
			if st.Bool(1, 3) && !t.Pieces.Complete(uint32(i)) {
				// aim: issue the request while the piece is being verified,
				// the window in which request and completion cross
				if simrt.AwaitStep(func() bool { return t.Pieces.SimState(i) == 2 }, time.Duration(1+st.Choice(30))*time.Second) {
					simrt.Probe("request-aimed-at-a-piece-being-hashed")
				}
			}
			ok, ch, err := t.Request(uint32(i), prio, true, want)
			tick := rc.Tick()
			if err != nil {
				rc.Fail("C10", "request", "", "Request(%d, %d): %v", i, prio, err)
				return
			}
			if !ok {
				// already complete: nothing was registered
				if t.Pieces.SimState(i) == 2 {
					rc.Fail("C10", "request-refused", "while-hashing", "Request(%d) reported nothing to do and registered nothing while the piece was still being hashed: if the hash fails nobody waits for it, if it succeeds nobody is woken", i)
					return
				}
				if ch != nil {
					rc.Fail("C10", "request", "channel-without-registration", "Request(%d) returned a channel but reported nothing requested", i)
				}
				continue
			}
			e.model[i] = append(e.model[i], prio)
			h := held{piece: i, prio: prio}
			if want && ch != nil {
				wt := &waiter{consumer: c, piece: i, prio: prio, ch: ch, tick: tick}
				e.waiting = append(e.waiting, wt)
				h.w = wt
			}
			mine = append(mine, h)
			rc.Tracef("consumer%d requests piece %d at priority %d (wait=%v)", c, i, prio, h.w != nil)
			if h.w != nil && st.Bool(2, 3) {
				// wait for it, for a while
				patience := time.Duration(1+st.Choice(60)) * time.Second
				_, _, timedOut := chRecvTimeout(h.w.ch, patience)
				if !timedOut {
					e.observeWake(h.w)
				} else {
					simrt.Probe("consumer-gave-up-waiting")
				}
			}
		case k == 1:
			j := st.Choice(len(mine))
			rc.Tracef("consumer%d withdraws piece %d priority %d", c, mine[j].piece, mine[j].prio)
			withdraw(j)
		case k == 2:
			// look at what we are waiting for
			for _, h := range mine {
				if h.w != nil && !h.w.seen && chClosed(h.w.ch) {
					e.observeWake(h.w)
				}
			}
		}
	}
	// wait for faults to stop, then for everything still pending (bounded liveness)
	for e.faultsOn {
		simrt.Sleep(time.Second)
	}
	for _, h := range mine {
		if h.w == nil || h.w.seen || rc.Failed() {
			continue
		}
		_, _, timedOut := chRecvTimeout(h.w.ch, 300*time.Second)
		if timedOut {
			infl := t.SimInFlight()
			cpp := e.spec.ChunksPerPiece()
			lo, hi := h.piece*cpp, min((h.piece+1)*cpp, len(infl))
			var ps []string
			for _, p := range t.SimPeers() {
				q, o := p.SimRequests()
				ps = append(ps, fmt.Sprintf("{unchoked=%v queued=%v outstanding=%v commands=%d pending=%d}", p.SimUnchoked(), q, o, p.SimCommands(), p.SimPending()))
			}
			prios, _ := t.SimRequested()
			if t.Pieces.Complete(uint32(h.piece)) {
				rc.Fail("C10", "lost-wakeup", "at-the-end", "consumer %d still waits for piece %d 300 s after faults stopped although the piece is verified: its wake-up was lost", c, h.piece)
				return
			}
			// the piece was never fetched: no wake-up is owed (C10 is
			// silent on that); it is the stream that stalls, which is
			// C02's liveness clause - recorded as a cross observation here
			rc.Fail("C02", "liveness", "piece-never-fetched", "consumer %d still waits for piece %d 300 s after faults stopped, with an honest unchoking seed connected, and the piece is not there; in-flight counts of its blocks %v, requested priorities %v, peers %v", c, h.piece, infl[lo:hi], prios[uint32(h.piece)], ps)
			simrt.Probe("piece-never-fetched")
			break
		}
		e.observeWake(h.w)
	}
	for len(mine) > 0 && !rc.Failed() {
		withdraw(0)
	}
}

// observeWake: the consumer saw its channel closed without having withdrawn.
func (e *reqEnv) observeWake(wt *waiter) {
	if wt.seen {
		return
	}
	wt.seen = true
	now := e.rc.Tick()
	simrt.Probe("consumer-woken")
	e.rc.Progress()
	if e.t.Pieces.Complete(uint32(wt.piece)) {
		return
	}
	for _, tk := range e.evictions[wt.piece] {
		if tk > wt.tick && tk < now {
			simrt.Probe("woken-for-a-piece-evicted-since")
			return // it was complete in between
		}
	}
	e.rc.Fail("C10", "spurious-wakeup", "", "consumer %d was woken for piece %d, which is not verified and was not evicted since the request", wt.consumer, wt.piece)
}

func requestsMain(rc *RunCtx) {
	st := rc.St
	w := NewWorld(rc)
	defer w.Shutdown()
	spec := GenTorSpec(st, SpecOpts{MaxPieces: 6, MultiFile: 1})
	config.PrefetchRate = float64(simrt.Pick(st, 0, 65536))
	config.SetIdleRate(uint32(simrt.Pick(st, 0, 65536, 1<<20)))
	t, err := w.AddTorrent(spec, false, "")
	if err != nil {
		rc.Fail("C10", "setup", "", "AddTorrent: %v", err)
		return
	}
	w.Link = func() (simnet.LinkCfg, simnet.LinkCfg) { return drawSysLink(st) }
	e := &reqEnv{rc: rc, w: w, t: t, spec: spec, model: map[int][]int8{}, evictions: map[int][]uint64{}, faultsOn: true}
	seed := w.NewPeer(spec, drawSeedCfg(st, "seed", 7000))
	seed.Connect()
	withFaults := !st.Bool(1, 5)
	var bad *RefPeer
	if withFaults && st.Bool(1, 2) {
		cfg := drawSeedCfg(st, "corrupter", 7100)
		cfg.AnswerWeights = []int{3, 0, 1, 0, 0, 0, 0, 4, 1, 0}
		bad = w.NewPeer(spec, cfg)
		bad.Connect()
	}
	nc := 2 + st.Choice(5)
	if st.Bool(1, 3) {
		e.readers = 1 + st.Choice(2)
	}
	rc.SetSample("setup", fmt.Sprintf("pieces=%d piece=%dK idle=%d consumers=%d readers=%d corrupter=%v faults=%v", spec.Geo.NPieces, spec.Geo.PieceSize>>10, config.IdleRate(), nc, e.readers, bad != nil, withFaults))
	join := &Join{n: nc + e.readers}
	for c := 0; c < nc; c++ {
		c := c
		nops := 2 + st.Choice(12)
		simrt.GoNamed(fmt.Sprintf("consumer%d", c), func() { defer join.Done(); e.consumer(c, nops) })
	}
	ctx, cancel := context.WithCancel(context.Background())
	defer cancel()
	for r := 0; r < e.readers; r++ {
		r := r
		simrt.GoNamed(fmt.Sprintf("reader%d", r), func() {
			defer join.Done()
			off := int64(st.Choice(int(spec.Geo.Length)))
			rd := t.NewReader(ctx, off, spec.Geo.Length-off)
			buf := make([]byte, 20000)
			for k := 0; k < 3+st.Choice(10); k++ {
				if st.Bool(1, 4) {
					rd.Seek(int64(st.Choice(int(spec.Geo.Length-off))), 0)
				}
				n, err := rd.Read(buf)
				if err != nil {
					break
				}
				if n == 0 {
					simrt.Sleep(20 * time.Millisecond)
				}
				simrt.Sleep(time.Duration(st.Choice(1500)) * time.Millisecond)
			}
			rd.Close()
		})
	}
	// faults and quiescent checks
	simrt.GoNamed("fault-phase", func() {
		if withFaults {
			for k := 1 + st.Choice(6); k > 0; k-- {
				simrt.Sleep(time.Duration(500+st.Choice(6000)) * time.Millisecond)
				switch st.Choice(3) {
				case 0:
					e.evict()
				case 1:
					c, err := t.GetConf()
					if err == nil {
						simrt.Fault("set-conf")
						t.SetConf(c) // runs DelIdle
					}
				case 2:
					if seed.Ready && !seed.ChokingSys {
						simrt.Fault("peer-chokes")
						seed.Choke()
						simrt.Sleep(time.Duration(st.Choice(3000)) * time.Millisecond)
						seed.Unchoke()
					}
				}
				if w.AwaitQuiet(5 * time.Second) {
					e.checkTable("during")
				}
			}
		}
		if bad != nil {
			bad.Disconnect(false)
		}
		e.faultsOn = false
		for !w.stopped {
			if seed.Closed || seed.conn == nil {
				seed.Connect()
			} else if seed.Ready && seed.ChokingSys && (!seed.Cfg.ChokeUninterested || seed.SysInterested) {
				seed.Unchoke()
			}
			simrt.Sleep(15 * time.Second)
		}
	})
	join.Wait()
	if rc.Failed() {
		return
	}
	cancel()
	simrt.Sleep(2 * time.Second)
	if !w.AwaitQuiet(time.Minute) {
		simrt.Probe("no-final-quiescent-point")
		if w.LoopStuck(t) {
			// (C17's business: a cross observation under ./check C10)
			rc.Fail("C17", "event-loop-stuck", "", "the torrent's event loop does not answer a status query any more (%d events queued)", t.SimEventLen())
		}
		return
	}
	e.checkTable("after-all-withdrawn")
	prios, _ := t.SimRequested()
	for i, p := range prios {
		if len(p) > 0 {
			rc.Fail("C10", "priorities", "leaked-at-end", "every consumer has withdrawn and every reader is closed, but piece %d is still requested at priorities %v", i, p)
			return
		}
	}
}

// ---- C17 --------------------------------------------------------------------------------

func lifecycleMain(rc *RunCtx) {
	st := rc.St
	w := NewWorld(rc)
	defer w.Shutdown()
	magnet := st.Bool(1, 4)
	// bulk: a torrent of ten or so megabytes fetched at full speed from
	// seeds with deep queues, so that hundreds of requests are queued or
	// outstanding when the torrent is deleted
	bulk := !magnet && st.Bool(1, 12)
	opts := SpecOpts{MaxPieces: 6, MultiFile: 1, Huge: !magnet, HugeOdds: 16}
	if bulk {
		opts = SpecOpts{MultiFile: 1, PieceCounts: []int{40, 56, 72}, PieceSize: 256 << 10}
	}
	spec := GenTorSpec(st, opts)
	config.SetIdleRate(uint32(simrt.Pick(st, 65536, 0)))
	config.MemoryMark = spec.Geo.PieceSize * 3
	if bulk {
		config.MemoryMark = 1 << 30
	}
	actx, acancel := context.WithCancel(context.Background())
	var t *tor.Torrent
	{
		var err error
		var t0 *tor.Torrent
		if magnet {
			t0, err = tor.ReadMagnet("", spec.MagnetURI())
		} else {
			t0, err = tor.ReadTorrent("", bytesReader(spec.Torrent))
		}
		if err == nil {
			t, err = tor.AddTorrent(actx, t0)
		}
		if err != nil {
			rc.Fail("C17", "setup", "", "AddTorrent: %v", err)
			return
		}
		w.Torrents = append(w.Torrents, t)
	}
	w.Link = func() (simnet.LinkCfg, simnet.LinkCfg) { return drawSysLink(st) }
	killed := false
	killing := false // set at the step at which the deletion is about to begin
	killedFlag := func() bool { return killed }
	npeers := st.Choice(5)
	if spec.Sparse || bulk {
		npeers = 2 + st.Choice(4)
	}
	for i := 0; i < npeers; i++ {
		cfg := drawSeedCfg(st, fmt.Sprintf("peer%d", i), 7000+i)
		if st.Bool(1, 3) {
			cfg.Interested = true
			cfg.Have = func(int) bool { return false }
		}
		if bulk {
			cfg.Have = func(int) bool { return true }
			cfg.Interested = false
			cfg.Reqq = simrt.Pick(st, 2000, 250, 500)
			cfg.Ext = true
			cfg.UnchokeAfter = 0
			cfg.AnswerDelay = nil
			cfg.AnswerWeights = nil
		}
		if spec.Sparse {
			// peers that claim all of a huge torrent, accept deep pipelines
			// and never deliver: hundreds of requests are outstanding when
			// the torrent is deleted
			cfg.Have = func(int) bool { return true }
			cfg.HaveUnverifiable = true
			cfg.Ext = true
			cfg.Reqq = simrt.Pick(st, 250, 500, 2000)
			cfg.AnswerWeights = []int{0, 0, 1, 0, 0, 0, 0, 0, 0, 0}
			cfg.UnchokeAfter = 0
		}
		p := w.NewPeer(spec, cfg)
		if st.Bool(1, 2) {
			p.Connect()
		} else {
			t.AddKnown(p.Addr, nil, "", known.Tracker)
		}
	}
	if bulk {
		simrt.GoNamed("demand", func() {
			for i := 0; i < spec.Geo.NPieces && !killedFlag(); i++ {
				t.Request(uint32(i), int8(1+st.Choice(2)), true, false)
			}
			simrt.Probe("bulk-download")
		})
	}
	if spec.Sparse {
		simrt.GoNamed("demand", func() {
			simrt.Sleep(time.Duration(st.Choice(3000)) * time.Millisecond)
			for i, n := 4, 50+st.Choice(400); n > 0 && !killedFlag(); i, n = i+1, n-1 {
				t.Request(uint32(i), int8(st.Choice(2)), true, false)
			}
			simrt.Probe("demand-for-hundreds-of-pieces")
		})
	}
	if !magnet && !spec.Sparse && !bulk && st.Bool(1, 2) {
		var held []int
		for i := 0; i < spec.Geo.NPieces; i++ {
			if st.Bool(1, 2) {
				held = append(held, i)
			}
		}
		w.Preload(t, spec, held)
	}
	var killReturned time.Time
	ncallers := 4 + st.Choice(7)
	type callRec struct {
		caller    int
		op        string
		started   time.Duration
		returned  bool
		afterKill bool
	}
	var calls []*callRec
	join := &Join{n: ncallers}
	rctx, rcancel := context.WithCancel(context.Background())
	defer rcancel()
	opNames := []string{"GetStats", "GetAvailable", "DropPeer", "GetPeer", "GetPeers", "GetKnown", "GetKnowns", "GetConf", "SetConf", "Request-wait", "Request", "AddKnown", "Have", "BadPeer", "Announce", "Expire", "Reader", "NewPeer", "HTTP-root", "HTTP-peers", "Server-handshake", "Add-duplicate", "Kill-again"}
	doOp := func(c int, op int) {
		rec := &callRec{caller: c, op: opNames[op], started: rc.S.Now(), afterKill: killed}
		calls = append(calls, rec)
		stage := "before-kill"
		if killed {
			stage = "after-kill"
		}
		simrt.Probe("op-" + opNames[op] + "-" + stage)
		switch op {
		case 0:
			t.GetStats()
		case 1:
			t.GetAvailable()
		case 2:
			t.DropPeer()
		case 3:
			t.GetPeer(hash.Hash(make([]byte, 20)))
		case 4:
			t.GetPeers()
		case 5:
			t.GetKnown(nil, netip.MustParseAddrPort("80.1.1.1:7000"))
		case 6:
			t.GetKnowns()
		case 7:
			t.GetConf()
		case 8:
			t.SetConf(peer.TorConf{DhtMode: config.DhtMode(st.Choice(3)), UseTrackers: st.Bool(1, 2), UseWebseeds: st.Bool(1, 2)})
		case 9:
			if _, ch, _ := t.Request(uint32(st.Choice(spec.Geo.NPieces)), 1, true, true); ch != nil {
				chRecvTimeout(ch, time.Duration(1+st.Choice(20))*time.Second)
			}
		case 10:
			t.Request(uint32(st.Choice(spec.Geo.NPieces)), int8(st.Choice(3)), st.Bool(2, 3), false)
		case 11:
			t.AddKnown(netip.MustParseAddrPort(fmt.Sprintf("80.9.9.%d:6881", 1+st.Choice(200))), nil, "v", known.PEX)
		case 12:
			hi := st.Choice(spec.Geo.NPieces)
			w.noteHoldable(spec, hi) // the caller vouches for it
			t.Have(uint32(hi), st.Bool(1, 2))
		case 13:
			t.BadPeer(uint32(1+st.Choice(5)), st.Bool(1, 2))
		case 14:
			tor.Announce(hash.Hash(spec.InfoHash), st.Bool(1, 2))
		case 15:
			tor.Expire()
		case 16:
			if t.InfoComplete() {
				r := t.NewReader(rctx, 0, spec.Geo.Length)
				buf := make([]byte, 5000)
				for k := 0; k < 1+st.Choice(4); k++ {
					n, err := r.Read(buf)
					if err != nil {
						break
					}
					if n == 0 {
						simrt.Sleep(20 * time.Millisecond)
					}
				}
				r.Close()
			}
		case 17:
			// a connection that completes its handshake around the kill
			cfg := drawSeedCfg(st, fmt.Sprintf("late%d-%d", c, len(calls)), 0)
			p := w.NewPeer(spec, cfg)
			p.Connect()
			simrt.Sleep(time.Duration(st.Choice(500)) * time.Millisecond)
		case 18:
			req := httptest.NewRequest("GET", "http://localhost:8088/", nil)
			http.DefaultServeMux.ServeHTTP(httptest.NewRecorder(), req)
		case 19:
			req := httptest.NewRequest("GET", fmt.Sprintf("http://localhost:8088/?q=peers&hash=%x", spec.InfoHash), nil)
			http.DefaultServeMux.ServeHTTP(httptest.NewRecorder(), req)
		case 20:
			// an incoming connection that stops in the middle of its handshake
			far := w.Inbound(simnet.TCPAddr("80.7.7.7", w.nextPort()))
			far.Write([]byte{19, 'B', 'i', 't'})
			simrt.Sleep(time.Duration(st.Choice(3000)) * time.Millisecond)
			far.Close()
		case 21:
			// the same torrent is added a second time (the UI does that when
			// a link is pasted twice): refused while the first one lives,
			// and the refused object answers like a dead torrent
			if magnet {
				break
			}
			t0, err := tor.ReadTorrent("", bytesReader(spec.Torrent))
			if err != nil {
				break
			}
			t2, err := tor.AddTorrent(context.Background(), t0)
			if err == nil && t2 != t && !killing {
				rc.Fail("C17", "duplicate-added", "", "AddTorrent of a hash that is already running succeeded with another object")
			}
			if err != nil {
				// whatever we got back must not hang its caller
				t0.GetStats()
				t0.GetConf()
				ctx, cancel := context.WithTimeout(context.Background(), 20*time.Second)
				t0.Kill(ctx)
				cancel()
			} else if t2 != nil && t2 != t {
				// added after the first one was deleted: it is the scenario's to clean up
				w.Torrents = append(w.Torrents, t2)
				ctx, cancel := context.WithTimeout(context.Background(), 20*time.Second)
				t2.Kill(ctx)
				cancel()
			}
		case 22:
			ctx, cancel := context.WithTimeout(context.Background(), 20*time.Second)
			t.Kill(ctx)
			cancel()
		}
		rec.returned = true
	}
	for c := 0; c < ncallers; c++ {
		c := c
		nops := 2 + st.Choice(10)
		simrt.GoNamed(fmt.Sprintf("caller%d", c), func() {
			defer join.Done()
			for k := 0; k < nops; k++ {
				if st.Bool(2, 3) {
					simrt.Sleep(time.Duration(st.Choice(1500)) * time.Millisecond)
				}
				doOp(c, st.Choice(len(opNames)-1)) // Kill-again only from the killer
			}
		})
	}
	killAt := time.Duration(st.Choice(12000)) * time.Millisecond
	byContext := st.Bool(1, 3)
	rc.SetSample("setup", fmt.Sprintf("magnet=%v pieces=%d peers=%d callers=%d kill at %v by context=%v", magnet, spec.Geo.NPieces, npeers, ncallers, killAt, byContext))
	// connections that are handed to the torrent at the very step at which
	// its deletion begins (every phase of the teardown is a yield point
	// away): each must end up closed
	var lateFar []*simnet.Conn
	nlate := 0
	if !magnet && st.Bool(1, 2) {
		nlate = 1 + st.Choice(4)
	}
	for k := 0; k < nlate; k++ {
		k := k
		simrt.GoNamed(fmt.Sprintf("late-connection%d", k), func() {
			if !simrt.AwaitStep(func() bool { return killing }, time.Hour) {
				return
			}
			for n := st.Choice(6); n > 0; n-- {
				simrt.Y(-1)
			}
			sys, far := simnet.Pipe(simnet.TCPAddr(w.SysIP, w.nextPort()), simnet.TCPAddr("80.9.9.9", 9000+k), simnet.LinkCfg{}, simnet.LinkCfg{})
			lateFar = append(lateFar, far)
			simrt.Probe("connection-handed-over-as-deletion-begins")
			t.NewPeer("", sys, netip.MustParseAddrPort(fmt.Sprintf("80.9.9.9:%d", 9000+k)), true,
				protocol.HandshakeResult{Hash: hash.Hash(spec.InfoHash), Id: hash.Hash(drawBytes(st, 20))}, nil)
		})
	}
	if st.Bool(1, 4) {
		// aimed: delete the torrent while it holds no data at all and
		// requests are outstanding: the answers arrive at a deleted torrent
		if simrt.AwaitStep(func() bool {
			if t.Pieces.SimCount() != 0 { // (the unlocked counter: this runs on the scheduler's goroutine)
				return false
			}
			for _, sp := range t.SimPeers() {
				if len(sp.SimOutstanding()) > 0 {
					return true
				}
			}
			return false
		}, killAt+time.Millisecond) {
			simrt.Probe("kill-aimed-at-an-empty-torrent-with-requests-outstanding")
			for n := st.Choice(4); n > 0; n-- {
				simrt.Y(-1)
			}
		}
	} else if st.Bool(1, 3) {
		// aimed: delete the torrent while one of its pieces is being hashed
		if simrt.AwaitStep(func() bool {
			for i := 0; i < min(spec.Geo.NPieces, 128); i++ {
				if t.Pieces.SimState(i) == 2 {
					return true
				}
			}
			return false
		}, killAt+time.Millisecond) {
			simrt.Probe("kill-aimed-at-a-piece-being-hashed")
		}
	} else {
		simrt.Sleep(killAt)
	}
	rc.Tracef("kill (by context: %v)", byContext)
	killing = true
	if byContext {
		acancel()
		simrt.Y(-1)
		select {
		case <-t.Deleted:
		case <-time.After(time.Minute):
			simrt.Y(-1)
			rc.Fail("C17", "kill-hangs", "context", "a minute after the context given to AddTorrent was cancelled the torrent is not deleted")
			return
		}
		simrt.Y(-1)
	} else {
		ctx, cancel := context.WithTimeout(context.Background(), time.Minute)
		err := t.Kill(ctx)
		cancel()
		if err != nil && !errors.Is(err, tor.ErrTorrentDead) {
			rc.Fail("C17", "kill-hangs", "", "Kill: %v", err)
			return
		}
		if err == nil {
			// Kill has returned: the deletion is complete, now
			if g := tor.Get(hash.Hash(spec.InfoHash)); g == t {
				rc.Fail("C17", "still-listed", "when-kill-returned", "Kill returned nil and the torrent is still listed")
			}
			if !chClosed(t.Deleted) {
				rc.Fail("C17", "not-deleted", "when-kill-returned", "Kill returned nil before the deletion had completed")
			}
		}
	}
	killed = true
	killReturned = time.Now()
	_ = killReturned
	rc.Progress()
	// callers keep calling for a while after the kill
	simrt.Sleep(10 * time.Minute)
	rcancel()
	simrt.Sleep(5 * time.Second)
	ok := w.AwaitQuiet(time.Minute)
	if !ok {
		simrt.Probe("no-final-quiescent-point")
	}
	for _, c := range calls {
		if !c.returned {
			rc.Fail("C17", "call-hangs", c.op, "%s called by caller %d at %v has not returned ten minutes after the torrent was deleted", c.op, c.caller, c.started)
		}
	}
	if rc.Failed() {
		return
	}
	if tor.Get(hash.Hash(spec.InfoHash)) != nil || tor.SimCount() != 0 {
		rc.Fail("C17", "still-listed", "", "the deleted torrent is still listed (Get=%v, count=%d)", tor.Get(hash.Hash(spec.InfoHash)) != nil, tor.SimCount())
	}
	if n, names := rc.S.LiveSys(); n > 0 {
		rc.Fail("C17", "goroutines-left", firstWord(names[0]), "%d goroutines of the code under test are still alive ten minutes after the deletion: %v", n, names)
	}
	for k, far := range lateFar {
		if !far.PeerGone() {
			rc.Fail("C17", "connection-left-open", "handed-over-during-deletion", "connection %d, handed to Torrent.NewPeer as the deletion began, is still open ten minutes later", k)
			break
		}
	}
	for _, p := range w.Peers {
		if p.conn != nil && !p.Closed && !p.conn.PeerGone() {
			rc.Fail("C17", "connection-left-open", "", "the connection of %s is still open after the torrent was deleted", p.Cfg.Name)
			break
		}
	}
	if b := alloc.Bytes(); b != 0 {
		rc.Fail("C17", "memory-not-released", "", "alloc.Bytes()=%d after the only torrent was deleted", b)
	}
	if n := peer.NumUnchoking(); n != 0 {
		rc.Fail("C17", "num-unchoking", "", "peer.NumUnchoking()=%d after the only torrent was deleted", n)
	}
	if rc.Failed() {
		return
	}
	// the hash can be added again
	t2, err := w.AddTorrent(spec, magnet, "")
	if err != nil || t2 == nil {
		rc.Fail("C17", "re-add", "", "adding the same torrent again after deletion: %v", err)
	}
}

func firstWord(s string) string {
	for i, c := range s {
		if c == ' ' {
			return s[:i]
		}
	}
	return s
}

func bytesReader(b []byte) *bytesRd { return &bytesRd{b: b} }

type bytesRd struct {
	b []byte
	i int
}

func (r *bytesRd) Read(p []byte) (int, error) {
	if r.i >= len(r.b) {
		return 0, errEOF
	}
	n := copy(p, r.b[r.i:])
	r.i += n
	return n, nil
}

var errEOF = io.EOF
