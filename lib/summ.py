#!/usr/bin/env python3
# summarise "R" lines of a worker run: violation keys with counts and an example
import sys,json,collections
c=collections.Counter(); ex={}
n=0
for l in sys.stdin:
    if l.startswith('B '):
        b=json.loads(l[2:]); print('batch: runs',b['runs'],'nontrivial',b['nontrivial'],'steps',b['steps'],'wall %.1fs'%b['wall_seconds'],'ends',b['end_reasons'],'faults',b['faults'],'probes',b['probes'],'leftover',b['leftover'])
    if not l.startswith('R '): continue
    r=json.loads(l[2:])
    for v in r.get('viol',[])+[dict(x,prop='x-'+x['prop']) for x in r.get('cross',[])]:
        k=v['prop']+'/'+v['oracle']+'/'+v.get('class','')
        c[k]+=1; ex.setdefault(k,(r['index'],v['detail'][:700]))
    if r.get('inconclusive'): c['inconclusive: '+r['inconclusive']]+=1
for k,n in c.most_common(): print(n,k,ex.get(k,''))
