package refwire

import (
	"encoding/binary"
	"errors"
	"fmt"
	"net"
)

// Typed helpers for the payloads carried in Extended messages (BEP 10).
// All Encode* functions return the payload only (what goes after the
// extended message id byte); wrap it as Extended{SubID: id, Payload: p}.

// Extension names as they appear in the "m" dictionary.
const (
	ExtNameMetadata   = "ut_metadata" // BEP 9
	ExtNamePex        = "ut_pex"      // BEP 11
	ExtNameDontHave   = "lt_donthave" // libtorrent extension
	ExtNameUploadOnly = "upload_only" // BEP 21
)

// ExtError is returned by the typed payload decoders.
type ExtError struct {
	What string // which payload ("ext handshake", "ut_metadata", ...)
	Msg  string
}

func (e *ExtError) Error() string { return "refwire: " + e.What + ": " + e.Msg }

func extErrf(what, format string, args ...any) error {
	return &ExtError{What: what, Msg: fmt.Sprintf(format, args...)}
}

// ---------------------------------------------------------------------------
// Extension handshake, BEP 10 (extended message id 0).

// ExtHandshake is the bencoded dictionary of the extension handshake.  Every
// key is optional (BEP 10: "all of the following keys are optional").
//
// Presence: for byte-string valued keys and for M, nil means absent.  For
// the scalar keys the Has* flag says whether the key is present; as a
// convenience EncodeExtHandshake also emits V, UploadOnly and E when they are
// non-zero even if the flag is unset.  P, Reqq and MetadataSize are emitted
// only when their flag is set.  DecodeExtHandshake always sets the flags.
//
// Integers are kept as int64 exactly as decoded, so that out-of-range values
// sent by a peer are visible to the caller (lenient mode only; strict mode
// rejects them).
type ExtHandshake struct {
	// "m": extension name -> extended message id the sender wants to
	// RECEIVE that extension on; 0 means "disabled" (BEP 10).
	M map[string]int64

	V    string // "v": client name and version, UTF-8 (BEP 10)
	HasV bool

	P    int64 // "p": local TCP listen port (BEP 10)
	HasP bool

	Reqq    int64 // "reqq": number of outstanding requests supported (BEP 10)
	HasReqq bool

	MetadataSize    int64 // "metadata_size": size of the info dict in bytes (BEP 9)
	HasMetadataSize bool

	IPv4   []byte // "ipv4": 4 bytes, sender's IPv4 address (BEP 10)
	IPv6   []byte // "ipv6": 16 bytes, sender's IPv6 address (BEP 10)
	YourIP []byte // "yourip": 4 or 16 bytes, receiver's address as seen by sender (BEP 10)

	UploadOnly    int64 // "upload_only": 1 if the sender is a seed/partial seed (BEP 21)
	HasUploadOnly bool

	E    int64 // "e": 1 if the sender prefers encrypted connections (libtorrent/uTorrent)
	HasE bool

	// Other holds keys not listed above and, in lenient mode, listed keys
	// whose value had the wrong type.  EncodeExtHandshake emits Other too;
	// typed fields take precedence over an Other entry of the same name.
	Other map[string]any
}

// EncodeExtHandshake returns the canonical bencoding of h (payload only).
func EncodeExtHandshake(h ExtHandshake) []byte {
	d := map[string]any{}
	for k, v := range h.Other {
		d[k] = v
	}
	if h.M != nil {
		m := make(map[string]any, len(h.M))
		for k, v := range h.M {
			m[k] = v
		}
		d["m"] = m
	}
	if h.HasV || h.V != "" {
		d["v"] = h.V
	}
	if h.HasP {
		d["p"] = h.P
	}
	if h.HasReqq {
		d["reqq"] = h.Reqq
	}
	if h.HasMetadataSize {
		d["metadata_size"] = h.MetadataSize
	}
	if h.IPv4 != nil {
		d["ipv4"] = h.IPv4
	}
	if h.IPv6 != nil {
		d["ipv6"] = h.IPv6
	}
	if h.YourIP != nil {
		d["yourip"] = h.YourIP
	}
	if h.HasUploadOnly || h.UploadOnly != 0 {
		d["upload_only"] = h.UploadOnly
	}
	if h.HasE || h.E != 0 {
		d["e"] = h.E
	}
	return BEncode(d)
}

// DecodeExtHandshake decodes an extension handshake payload.
//
// Both modes require the payload to start with a bencoded dictionary.
//
// Strict mode additionally requires: canonical bencoding, no bytes after the
// dictionary, every known key to have the specified type, "m" values to be
// integers in 0..255, "p" in 0..65535, "reqq" and "metadata_size" >= 0,
// "ipv4" of 4 bytes, "ipv6" of 16 bytes, "yourip" of 4 or 16 bytes,
// "upload_only" and "e" in {0,1}.
//
// Lenient mode ignores trailing bytes, keeps out-of-range values as they are,
// moves known keys of the wrong type into Other, and drops non-integer
// entries of "m".
func DecodeExtHandshake(payload []byte, strict bool) (ExtHandshake, error) {
	const what = "ext handshake"
	var h ExtHandshake
	v, rest, err := BDecode(payload, strict)
	if err != nil {
		return h, err
	}
	d, ok := v.(map[string]any)
	if !ok {
		return h, extErrf(what, "payload is not a dictionary")
	}
	if strict && len(rest) != 0 {
		return h, extErrf(what, "%d trailing bytes after dictionary", len(rest))
	}
	other := func(k string, v any) {
		if h.Other == nil {
			h.Other = map[string]any{}
		}
		h.Other[k] = v
	}
	// wrong handles a known key with a value of the wrong type.
	wrong := func(k string, v any) error {
		if strict {
			return extErrf(what, "key %q has wrong type %T", k, v)
		}
		other(k, v)
		return nil
	}
	// intKey handles an integer-valued key with an inclusive strict range.
	intKey := func(k string, v any, dst *int64, has *bool, lo, hi int64) error {
		i, ok := v.(int64)
		if !ok {
			return wrong(k, v)
		}
		if strict && (i < lo || i > hi) {
			return extErrf(what, "key %q value %d out of range", k, i)
		}
		*dst, *has = i, true
		return nil
	}
	// bytesKey handles a string-valued key with up to two strict lengths.
	bytesKey := func(k string, v any, dst *[]byte, l1, l2 int) error {
		b, ok := v.([]byte)
		if !ok {
			return wrong(k, v)
		}
		if strict && len(b) != l1 && len(b) != l2 {
			return extErrf(what, "key %q has length %d", k, len(b))
		}
		*dst = b
		return nil
	}
	const maxInt = int64(^uint64(0) >> 1)
	for k, v := range d {
		var err error
		switch k {
		case "m":
			md, ok := v.(map[string]any)
			if !ok {
				err = wrong(k, v)
				break
			}
			h.M = make(map[string]int64, len(md))
			for name, idv := range md {
				id, ok := idv.(int64)
				if !ok {
					if strict {
						err = extErrf(what, "m[%q] has wrong type %T", name, idv)
					}
					continue
				}
				if strict && (id < 0 || id > 255) {
					err = extErrf(what, "m[%q] = %d out of range", name, id)
				}
				h.M[name] = id
			}
		case "v":
			b, ok := v.([]byte)
			if !ok {
				err = wrong(k, v)
				break
			}
			h.V, h.HasV = string(b), true
		case "p":
			err = intKey(k, v, &h.P, &h.HasP, 0, 65535)
		case "reqq":
			err = intKey(k, v, &h.Reqq, &h.HasReqq, 0, maxInt)
		case "metadata_size":
			err = intKey(k, v, &h.MetadataSize, &h.HasMetadataSize, 0, maxInt)
		case "ipv4":
			err = bytesKey(k, v, &h.IPv4, 4, 4)
		case "ipv6":
			err = bytesKey(k, v, &h.IPv6, 16, 16)
		case "yourip":
			err = bytesKey(k, v, &h.YourIP, 4, 16)
		case "upload_only":
			err = intKey(k, v, &h.UploadOnly, &h.HasUploadOnly, 0, 1)
		case "e":
			err = intKey(k, v, &h.E, &h.HasE, 0, 1)
		default:
			other(k, v)
		}
		if err != nil {
			return ExtHandshake{}, err
		}
	}
	return h, nil
}

// ---------------------------------------------------------------------------
// ut_metadata, BEP 9.

// ut_metadata msg_type values (BEP 9).
const (
	MetadataRequest = 0
	MetadataData    = 1
	MetadataReject  = 2
)

// MetadataBlock is the size of every metadata piece except the last (BEP 9:
// "The metadata is handled in blocks of 16KiB").
const MetadataBlock = 16384

// MetadataMsg is a ut_metadata message (BEP 9): a bencoded dictionary
// {"msg_type": t, "piece": n} and, for data messages, also "total_size";
// a data message is followed, after the dictionary's closing 'e', by the raw
// bytes of the metadata block (they are NOT part of the bencoding).
type MetadataMsg struct {
	Type         int64 // msg_type: 0 request, 1 data, 2 reject
	Piece        int64 // piece
	TotalSize    int64 // total_size; data messages only
	HasTotalSize bool
	Data         []byte // bytes following the dictionary; data messages only
}

// EncodeMetadata returns the payload for m.  total_size is emitted iff
// HasTotalSize, and Data is appended iff non-empty, whatever Type says, so
// that non-conforming messages can be produced on purpose.
func EncodeMetadata(m MetadataMsg) []byte {
	d := map[string]any{"msg_type": m.Type, "piece": m.Piece}
	if m.HasTotalSize {
		d["total_size"] = m.TotalSize
	}
	return append(BEncode(d), m.Data...)
}

// DecodeMetadata decodes a ut_metadata payload.  Both modes require a leading
// bencoded dictionary with integer "msg_type" and "piece".
//
// Strict mode additionally requires canonical bencoding, msg_type in {0,1,2},
// piece >= 0, total_size (if present) an integer >= 0; a data message must
// carry total_size and between 1 and MetadataBlock bytes of data; request and
// reject messages must carry no trailing bytes.  (BEP 9 tells receivers to
// ignore unknown msg_type values; a conforming SENDER never produces one, and
// strict mode checks senders.)
//
// Lenient mode returns whatever follows the dictionary in Data, and leaves
// HasTotalSize false if total_size is missing or not an integer.
func DecodeMetadata(payload []byte, strict bool) (MetadataMsg, error) {
	const what = "ut_metadata"
	var m MetadataMsg
	v, rest, err := BDecode(payload, strict)
	if err != nil {
		return m, err
	}
	d, ok := v.(map[string]any)
	if !ok {
		return m, extErrf(what, "payload does not start with a dictionary")
	}
	if m.Type, ok = d["msg_type"].(int64); !ok {
		return MetadataMsg{}, extErrf(what, "missing or non-integer msg_type")
	}
	if m.Piece, ok = d["piece"].(int64); !ok {
		return MetadataMsg{}, extErrf(what, "missing or non-integer piece")
	}
	if ts, present := d["total_size"]; present {
		if i, ok := ts.(int64); ok {
			m.TotalSize, m.HasTotalSize = i, true
		} else if strict {
			return MetadataMsg{}, extErrf(what, "non-integer total_size")
		}
	}
	if len(rest) > 0 {
		m.Data = clone(rest)
	}
	if strict {
		if m.Type < MetadataRequest || m.Type > MetadataReject {
			return MetadataMsg{}, extErrf(what, "unknown msg_type %d", m.Type)
		}
		if m.Piece < 0 {
			return MetadataMsg{}, extErrf(what, "negative piece %d", m.Piece)
		}
		if m.HasTotalSize && m.TotalSize < 0 {
			return MetadataMsg{}, extErrf(what, "negative total_size %d", m.TotalSize)
		}
		if m.Type == MetadataData {
			if !m.HasTotalSize {
				return MetadataMsg{}, extErrf(what, "data message without total_size")
			}
			if len(rest) == 0 || len(rest) > MetadataBlock {
				return MetadataMsg{}, extErrf(what, "data message with %d bytes of data", len(rest))
			}
		} else if len(rest) != 0 {
			return MetadataMsg{}, extErrf(what, "%d trailing bytes after msg_type %d", len(rest), m.Type)
		}
	}
	return m, nil
}

// ---------------------------------------------------------------------------
// ut_pex, BEP 11.

// PEX flag bits of the "added.f"/"added6.f" bytes (BEP 11).
const (
	PexPreferEncryption byte = 0x01 // prefers encryption
	PexUploadOnly       byte = 0x02 // seed / upload-only
	PexUTP              byte = 0x04 // supports uTP
	PexHolepunch        byte = 0x08 // supports ut_holepunch
	PexReachable        byte = 0x10 // outgoing connection, i.e. reachable
)

// PexPeer is one entry of a ut_pex message.  IP has length 4 or 16 after
// normalisation (IPv4-mapped IPv6 addresses become 4-byte addresses).  Flags
// is meaningful for added peers only.
type PexPeer struct {
	IP    net.IP
	Port  uint16
	Flags byte
}

// EncodePex returns a ut_pex payload (BEP 11): a dictionary with the keys
// "added", "added.f", "added6", "added6.f", "dropped", "dropped6".  Compact
// format: IPv4 peers take 6 bytes (4 address + 2 port, big-endian), IPv6
// peers 18 bytes (16 + 2); the ".f" strings carry one flag byte per added
// peer, in the same order.  All six keys are always emitted, empty if there
// is nothing to say.  Peers are split by address family, keeping their
// relative order.  An IP that is neither 4 nor 16 bytes long panics.
func EncodePex(added, dropped []PexPeer) []byte {
	a4, a6, f4, f6 := []byte{}, []byte{}, []byte{}, []byte{}
	d4, d6 := []byte{}, []byte{}
	compact := func(p PexPeer) ([]byte, bool) {
		port := []byte{byte(p.Port >> 8), byte(p.Port)}
		if ip4 := p.IP.To4(); ip4 != nil {
			return append(clone(ip4), port...), true
		}
		if ip16 := p.IP.To16(); ip16 != nil {
			return append(clone(ip16), port...), false
		}
		panic(fmt.Sprintf("refwire.EncodePex: bad IP of length %d", len(p.IP)))
	}
	for _, p := range added {
		c, is4 := compact(p)
		if is4 {
			a4, f4 = append(a4, c...), append(f4, p.Flags)
		} else {
			a6, f6 = append(a6, c...), append(f6, p.Flags)
		}
	}
	for _, p := range dropped {
		c, is4 := compact(p)
		if is4 {
			d4 = append(d4, c...)
		} else {
			d6 = append(d6, c...)
		}
	}
	return BEncode(map[string]any{
		"added": a4, "added.f": f4, "added6": a6, "added6.f": f6,
		"dropped": d4, "dropped6": d6,
	})
}

// DecodePex decodes a ut_pex payload.  IPv4 peers come first, then IPv6
// peers, each in wire order.  All keys are optional (a missing key is an
// empty list) and unknown keys are ignored, in both modes.
//
// Strict mode requires canonical bencoding with nothing after the dictionary,
// string values for the six keys, "added"/"dropped" lengths that are
// multiples of 6 and "added6"/"dropped6" lengths that are multiples of 18,
// and a flags string, when the key is present, with exactly one byte per
// added peer.  An absent flags key means all-zero flags.
//
// Lenient mode ignores values of the wrong type, ignores an incomplete
// trailing entry, and pads/truncates flags to the peer count.
func DecodePex(payload []byte, strict bool) (added, dropped []PexPeer, err error) {
	const what = "ut_pex"
	v, rest, err := BDecode(payload, strict)
	if err != nil {
		return nil, nil, err
	}
	d, ok := v.(map[string]any)
	if !ok {
		return nil, nil, extErrf(what, "payload is not a dictionary")
	}
	if strict && len(rest) != 0 {
		return nil, nil, extErrf(what, "%d trailing bytes after dictionary", len(rest))
	}
	// get returns the string under key k, and whether the key was usable.
	get := func(k string) ([]byte, bool, error) {
		v, present := d[k]
		if !present {
			return nil, false, nil
		}
		b, ok := v.([]byte)
		if !ok {
			if strict {
				return nil, false, extErrf(what, "key %q has wrong type %T", k, v)
			}
			return nil, false, nil
		}
		return b, true, nil
	}
	// peers decodes the compact list under key k (entry size = alen+2) and,
	// if fk != "", the flags under key fk.
	peers := func(k, fk string, alen int) ([]PexPeer, error) {
		b, _, err := get(k)
		if err != nil {
			return nil, err
		}
		sz := alen + 2
		if strict && len(b)%sz != 0 {
			return nil, extErrf(what, "%q has length %d, not a multiple of %d", k, len(b), sz)
		}
		n := len(b) / sz
		var flags []byte
		if fk != "" {
			f, present, err := get(fk)
			if err != nil {
				return nil, err
			}
			if strict && present && len(f) != n {
				return nil, extErrf(what, "%q has %d flags for %d peers", fk, len(f), n)
			}
			flags = f
		}
		out := make([]PexPeer, 0, n)
		for i := 0; i < n; i++ {
			e := b[i*sz : (i+1)*sz]
			p := PexPeer{IP: net.IP(clone(e[:alen])), Port: binary.BigEndian.Uint16(e[alen:])}
			if i < len(flags) {
				p.Flags = flags[i]
			}
			out = append(out, p)
		}
		return out, nil
	}
	a4, err := peers("added", "added.f", 4)
	if err != nil {
		return nil, nil, err
	}
	a6, err := peers("added6", "added6.f", 16)
	if err != nil {
		return nil, nil, err
	}
	d4, err := peers("dropped", "", 4)
	if err != nil {
		return nil, nil, err
	}
	d6, err := peers("dropped6", "", 16)
	if err != nil {
		return nil, nil, err
	}
	return append(a4, a6...), append(d4, d6...), nil
}

// ---------------------------------------------------------------------------
// lt_donthave and upload_only.

// ErrBadExtPayload is returned by DecodeDontHave and DecodeUploadOnly.
var ErrBadExtPayload = errors.New("refwire: malformed extension payload")

// EncodeDontHave returns an lt_donthave payload: the 4-byte big-endian index
// of the piece the sender no longer has (libtorrent extension; the payload
// has the same layout as that of a Have message).
func EncodeDontHave(index uint32) []byte { return u32(index) }

// DecodeDontHave decodes an lt_donthave payload, which must be exactly 4
// bytes long.
func DecodeDontHave(payload []byte) (uint32, error) {
	if len(payload) != 4 {
		return 0, ErrBadExtPayload
	}
	return binary.BigEndian.Uint32(payload), nil
}

// EncodeUploadOnly returns an upload_only extension message payload: a single
// byte, 1 if the sender is upload-only and 0 otherwise.  (BEP 21 itself only
// defines the "upload_only" handshake key; the message form is what clients
// that list "upload_only" in "m" send to announce a change of state.)
func EncodeUploadOnly(on bool) []byte {
	if on {
		return []byte{1}
	}
	return []byte{0}
}

// DecodeUploadOnly decodes an upload_only extension message payload.  Strict
// mode accepts exactly one byte with value 0 or 1.  Lenient mode accepts any
// single byte (non-zero meaning true) and also the bencoded-integer form some
// clients send ("i0e"/"i1e"; non-zero meaning true).
func DecodeUploadOnly(payload []byte, strict bool) (bool, error) {
	if len(payload) == 1 {
		if strict && payload[0] > 1 {
			return false, ErrBadExtPayload
		}
		return payload[0] != 0, nil
	}
	if !strict {
		if v, err := BDecodeAll(payload, false); err == nil {
			if i, ok := v.(int64); ok {
				return i != 0, nil
			}
		}
	}
	return false, ErrBadExtPayload
}
