package harness

import (
	"bytes"
	"errors"
	"fmt"
	"io"
	"time"

	"github.com/jech/storrent/alloc"
	"github.com/jech/storrent/hash"
	"github.com/jech/storrent/mono"
	"github.com/jech/storrent/tor/piece"
	"github.com/jech/storrent/zzsim/simrt"
)

// Store-level scenario for C01 and C03: several goroutines drive the real
// piece.Pieces (and alloc) concurrently; the scheduler interleaves them at
// every lock, atomic and sleep of piece.go.

func init() {
	Register(&Scenario{
		Name: "store", Props: []string{"C01", "C03"}, CrashTo: "C01,C03,C05",
		// C05: the workers of this scenario are what the reader goroutines of
		// several peers and the finalise goroutines of a torrent do to the
		// store when blocks of one piece arrive from several peers at once;
		// a panic here takes the client down on a message sequence.
		Also:    map[string]int{"C05": 1},
		Horizon: 400 * time.Hour, MaxSteps: 400000, Weight: 3,
		Main: storeMain, NontrivialNeedsFault: true,
	})
}

type span struct{ inv, ret uint64 }

type readEv struct {
	piece int
	span
	what string
}

type storeModel struct {
	id         int
	ps         *piece.Pieces
	geo        Geometry
	key        uint64
	content    []byte
	hashes     [][]byte
	fin        map[int][]span
	dis        map[int][]span
	reads      []readEv
	delSpan    *span
	delBy      int
	delStarted bool
}

// Join is a WaitGroup for scheduled goroutines.
type Join struct {
	n int
	q simrt.WaitQ
}

func (j *Join) Done() {
	j.n--
	if j.n <= 0 {
		j.q.Wake()
	}
}
func (j *Join) Wait() {
	for j.n > 0 {
		j.q.Wait(0)
	}
}

func storeMain(rc *RunCtx) {
	st := rc.St
	nstores := 1
	if st.Bool(1, 3) {
		nstores += 1 + st.Choice(2)
	}
	var stores []*storeModel
	for i := 0; i < nstores; i++ {
		m := &storeModel{id: i, ps: new(piece.Pieces), fin: map[int][]span{}, dis: map[int][]span{}}
		m.geo = DrawGeometry(st, 5, true)
		m.key = uint64(1000 + i + st.Choice(1<<20)*16)
		m.content = MakeContent(m.key, m.geo.Length)
		m.hashes = PieceHashes(m.content, m.geo)
		m.ps.MetadataComplete(uint32(m.geo.PieceSize), m.geo.Length)
		stores = append(stores, m)
	}
	if st.Bool(1, 4) {
		den := simrt.Pick(st, 30, 8, 3)
		simrt.AllocFail = func(size int) bool { return simrt.St().Bool(1, den) }
	}
	nw := 2 + st.Choice(4)
	join := &Join{n: nw}
	desc := []string{}
	for _, m := range stores {
		desc = append(desc, fmt.Sprintf("store%d piece=%dK len=%d pieces=%d", m.id, m.geo.PieceSize>>10, m.geo.Length, m.geo.NPieces))
	}
	rc.SetSample("stores", desc)
	rc.SetSample("workers", nw)
	for w := 0; w < nw; w++ {
		w := w
		nops := 4 + st.Choice(28)
		simrt.GoNamed(fmt.Sprintf("worker%d", w), func() {
			defer join.Done()
			for k := 0; k < nops && !rc.Failed(); k++ {
				storeOp(rc, stores, w, k, nops)
			}
		})
	}
	join.Wait()
	simrt.AllocFail = nil
	if rc.Failed() {
		return
	}
	// quiescent: only this goroutine runs from here on
	storeAccounting(rc, stores, "after-workers")
	for _, m := range stores {
		if !m.delStarted && !rc.Failed() {
			storeSequentialExpire(rc, m)
		}
	}
	storeAccounting(rc, stores, "after-expire")
	for _, m := range stores {
		if !m.delStarted {
			m.delStarted = true
			inv := rc.Tick()
			m.ps.Del()
			m.delSpan = &span{inv, rc.Tick()}
		}
		storeAfterDel(rc, m)
	}
	if b := alloc.Bytes(); b != 0 {
		rc.Fail("C03", "released", "after-del", "alloc.Bytes()=%d after every store was deleted", b)
	}
	for _, m := range stores {
		storeHistory(rc, m)
	}
}

func (m *storeModel) block(i, c int) []byte {
	lo := int64(i)*m.geo.PieceSize + int64(c)*chunkSize
	hi := lo + chunkSize
	if end := int64(i)*m.geo.PieceSize + m.geo.PieceLen(i); hi > end {
		hi = end
	}
	return m.content[lo:hi]
}

func storeOp(rc *RunCtx, stores []*storeModel, w, k, nops int) {
	st := rc.St
	m := stores[st.Choice(len(stores))]
	g := m.geo
	i := st.Choice(g.NPieces)
	deleted := m.delSpan != nil
	switch op := st.Weighted(30, 10, 14, 4, 3, 2, 5, 2, 2, 2); op {
	case 0: // AddData
		c := st.Choice(g.Chunks(i))
		kind := st.Weighted(20, 6, 4, 2, 2, 1, 1, 2, 1, 4)
		begin := uint32(c * chunkSize)
		var data []byte
		switch kind {
		case 0:
			data = m.block(i, c)
		case 1: // several blocks in one call
			n := 2 + st.Choice(2)
			for j := c; j < c+n && j < g.Chunks(i); j++ {
				data = append(data, m.block(i, j)...)
			}
		case 2: // corrupt
			data = bytes.Clone(m.block(i, c))
			data[st.Choice(len(data))] ^= byte(1 + st.Choice(255))
			simrt.Fault("corrupt-block")
		case 3: // over-long
			data = append(bytes.Clone(m.block(i, c)), make([]byte, 1+st.Choice(100))...)
		case 4: // short
			data = m.block(i, c)
			data = data[:st.Choice(len(data))]
		case 5:
			data = m.block(i, c)
			begin += uint32(1 + st.Choice(chunkSize-1))
		case 6:
			data = m.block(i, c)
			begin = uint32(g.Chunks(i)*chunkSize) + uint32(st.Choice(3))*chunkSize
		case 7: // data of another piece
			j := st.Choice(g.NPieces)
			if j != i && c < g.Chunks(j) && len(m.block(j, c)) == len(m.block(i, c)) {
				data = m.block(j, c)
				simrt.Fault("corrupt-block")
			} else {
				data = m.block(i, c)
			}
		case 8:
			data = nil
		case 9: // all the blocks of the piece, in order
			for j := 0; j < g.Chunks(i); j++ {
				data = append(data, m.block(i, j)...)
			}
			begin = 0
		}
		inv := rc.Tick()
		count, complete, err := m.ps.AddData(uint32(i), begin, data, uint32(w+1))
		rc.Tick()
		rc.Tracef("w%d AddData(s%d p%d begin=%d len=%d kind=%d) = %d,%v,%v", w, m.id, i, begin, len(data), kind, count, complete, err)
		if int(count) > len(data) {
			rc.Fail("C01", "adddata-count", "", "AddData consumed %d of %d bytes", count, len(data))
		}
		if m.delSpan != nil && m.delSpan.ret < inv && deleted && !errors.Is(err, piece.ErrDeleted) {
			rc.Fail("C03", "after-del", "adddata", "AddData after Del returned (%d,%v,%v), want ErrDeleted", count, complete, err)
		}
		if errors.Is(err, simrt.ErrSimAlloc) {
			simrt.Probe("adddata-alloc-failed")
		}
	case 1: // Finalise
		h := m.hashes[i]
		wrong := st.Bool(1, 4)
		if wrong {
			h = bytes.Clone(h)
			h[st.Choice(20)] ^= 0x40
		}
		inv := rc.Tick()
		done, _, err := m.ps.Finalise(uint32(i), hash.Hash(h))
		ret := rc.Tick()
		rc.Tracef("w%d Finalise(s%d p%d wrong=%v) = %v,%v", w, m.id, i, wrong, done, err)
		if done {
			rc.Progress()
			m.fin[i] = append(m.fin[i], span{inv, ret})
			if wrong {
				rc.Fail("C01", "finalise-wrong-hash", "", "Finalise(p%d) with a wrong hash reported done", i)
			}
			if err != nil {
				rc.Fail("C01", "finalise-result", "", "Finalise done with err=%v", err)
			}
			// read the whole piece back
			storeRead(rc, m, w, int64(i)*g.PieceSize, int(g.PieceLen(i)), "verify")
		}
		if errors.Is(err, piece.ErrHashMismatch) {
			simrt.Probe("hash-mismatch")
		}
	case 2: // ReadAt
		off := int64(st.Choice(int(g.Length) + 1))
		if st.Bool(1, 3) {
			off = int64(i)*g.PieceSize + int64(st.Choice(int(g.PieceLen(i))))
		}
		n := 1 + st.Choice(int(g.PieceSize*2))
		if st.Bool(1, 3) {
			n = 1 + st.Choice(64)
		}
		storeRead(rc, m, w, off, n, "read")
	case 3: // flags
		inv := rc.Tick()
		c := m.ps.UpdateTime(uint32(i))
		ret := rc.Tick()
		if c {
			m.reads = append(m.reads, readEv{i, span{inv, ret}, "update-time"})
		}
		inv = rc.Tick()
		c = m.ps.Complete(uint32(i))
		ret = rc.Tick()
		if c {
			m.reads = append(m.reads, readEv{i, span{inv, ret}, "complete-flag"})
		}
	case 4: // bitmaps and counters
		inv := rc.Tick()
		bm := m.ps.Bitmap()
		ret := rc.Tick()
		for j := 0; j < g.NPieces; j++ {
			if bm.Get(j) {
				m.reads = append(m.reads, readEv{j, span{inv, ret}, "bitmap"})
			}
		}
		n, pb := m.ps.PieceBitmap(uint32(i))
		if n != g.Chunks(i) || pb.Count() > n {
			rc.Fail("C01", "piece-bitmap", "", "PieceBitmap(p%d) = %d chunks, %d set; geometry has %d", i, n, pb.Count(), g.Chunks(i))
		}
		m.ps.Hole(uint32(i), uint32(st.Choice(g.Chunks(i))*chunkSize))
		m.ps.PieceEmpty(uint32(i))
		m.ps.All()
		if c := m.ps.Count(); c < 0 || c > g.NPieces {
			rc.Fail("C03", "count-range", "", "Count()=%d with %d pieces", c, g.NPieces)
		}
	case 5: // sleep: let the clock move
		d := time.Duration(st.Choice(4000)) * time.Second
		if st.Bool(1, 2) {
			d = time.Duration(st.Choice(2000)) * time.Microsecond
		}
		simrt.Sleep(d)
	case 6: // Expire
		target := int64(st.Choice(g.NPieces+1)) * g.PieceSize
		avail := make([]uint16, st.Choice(g.NPieces+2))
		for j := range avail {
			avail[j] = uint16(st.Choice(4))
		}
		mark := rc.Tick()
		simrt.Fault("expire")
		var evicted []int
		n := m.ps.Expire(target, avail, func(index uint32) {
			now := rc.Tick()
			m.dis[int(index)] = append(m.dis[int(index)], span{mark, now})
			evicted = append(evicted, int(index))
			mark = now
		})
		rc.Tick()
		rc.Tracef("w%d Expire(s%d target=%d) = %d, complete pieces evicted %v", w, m.id, target, n, evicted)
		if n < len(evicted) {
			rc.Fail("C03", "expire-count", "", "Expire returned %d but reported %d complete pieces", n, len(evicted))
		}
	case 7: // Del, once and late
		if !m.delStarted && k*2 >= nops && st.Bool(1, 2) {
			m.delStarted = true
			simrt.Fault("del")
			sp := &span{inv: rc.Tick()}
			// visible to the other workers only once it has returned
			m.ps.Del()
			sp.ret = rc.Tick()
			m.delSpan = sp
			m.delBy = w
			rc.Tracef("w%d Del(s%d)", w, m.id)
		}
	case 8:
		if b := alloc.Bytes(); b < 0 {
			rc.Fail("C03", "negative", "", "alloc.Bytes()=%d", b)
		}
		if b := m.ps.Bytes(); b < 0 || b > int64(g.NPieces)*g.PieceSize {
			rc.Fail("C03", "bytes-range", "", "Pieces.Bytes()=%d", b)
		}
	case 9: // a burst: fill a piece and finalise it
		for j := 0; j < g.Chunks(i); j++ {
			m.ps.AddData(uint32(i), uint32(j*chunkSize), m.block(i, j), uint32(w+1))
		}
		inv := rc.Tick()
		done, _, _ := m.ps.Finalise(uint32(i), hash.Hash(m.hashes[i]))
		ret := rc.Tick()
		rc.Tracef("w%d fill+Finalise(s%d p%d) = %v", w, m.id, i, done)
		if done {
			rc.Progress()
			m.fin[i] = append(m.fin[i], span{inv, ret})
		}
	}
}

func storeRead(rc *RunCtx, m *storeModel, w int, off int64, n int, what string) {
	g := m.geo
	buf := make([]byte, n)
	for j := range buf {
		buf[j] = 0xEE
	}
	inv := rc.Tick()
	got, err := m.ps.ReadAt(buf, off)
	ret := rc.Tick()
	if off >= g.Length {
		if got != 0 || err != io.EOF {
			rc.Fail("C01", "read-eof", "", "ReadAt(off=%d >= length %d) = %d,%v", off, g.Length, got, err)
		}
		return
	}
	if err != nil {
		rc.Fail("C01", "read-error", "", "ReadAt(off=%d,len=%d) error %v", off, n, err)
		return
	}
	if got == 0 {
		return
	}
	pi := int(off / g.PieceSize)
	pend := int64(pi)*g.PieceSize + g.PieceLen(pi)
	rc.Tracef("w%d ReadAt(s%d off=%d len=%d) = %d (%s)", w, m.id, off, n, got, what)
	if got > n || int64(got) > pend-off {
		rc.Fail("C01", "read-length", "", "ReadAt(off=%d,len=%d) returned %d bytes; piece %d ends at %d", off, n, got, pi, pend)
		return
	}
	if !bytes.Equal(buf[:got], m.content[off:off+int64(got)]) {
		k := 0
		for k < got && buf[k] == m.content[off+int64(k)] {
			k++
		}
		rc.Fail("C01", "read-content", classifyByte(buf[k]), "ReadAt(off=%d) byte %d is %#x, content has %#x", off, k, buf[k], m.content[off+int64(k)])
		return
	}
	for k := got; k < n; k++ {
		if buf[k] != 0xEE {
			rc.Fail("C01", "read-overrun", "", "ReadAt(off=%d,len=%d) returned %d but wrote byte %d", off, n, got, k)
			return
		}
	}
	m.reads = append(m.reads, readEv{pi, span{inv, ret}, what})
	if m.delSpan != nil && m.delSpan.ret < inv {
		rc.Fail("C01", "read-after-del", "", "ReadAt returned %d bytes after Del had returned", got)
	}
}

func classifyByte(b byte) string {
	switch b {
	case 0:
		return "zero"
	case 0xDB:
		return "poison"
	}
	return "other"
}

// storeAccounting runs with nothing else executing.
func storeAccounting(rc *RunCtx, stores []*storeModel, when string) {
	var sum int64
	for _, m := range stores {
		bufs := m.ps.SimBuffers()
		nonNil := 0
		for _, b := range bufs {
			if b > 0 {
				nonNil++
				sum += int64(b)
			}
		}
		if c := m.ps.Count(); c != nonNil {
			rc.Fail("C03", "count", when, "store %d: Count()=%d but %d pieces hold a buffer", m.id, c, nonNil)
		}
		for j, s := range m.ps.SimStates() {
			if s == 2 {
				rc.Fail("C01", "stuck-busy", when, "store %d piece %d still busy with no hash running", m.id, j)
			}
			if s == 1 && bufs[j] == 0 {
				rc.Fail("C01", "complete-without-data", when, "store %d piece %d complete without a buffer", m.id, j)
			}
		}
	}
	if b := alloc.Bytes(); b != sum {
		rc.Fail("C03", "accounting", when, "alloc.Bytes()=%d but piece buffers total %d", b, sum)
	}
}

func storeSequentialExpire(rc *RunCtx, m *storeModel) {
	st := rc.St
	g := m.geo
	// touch some pieces at different times
	for k := st.Choice(4); k > 0; k-- {
		simrt.Sleep(time.Duration(1+st.Choice(3000)) * time.Second)
		i := st.Choice(g.NPieces)
		m.ps.UpdateTime(uint32(i))
		// an access is an access whatever the state of the piece: it is what
		// "least recently accessed" is measured by (nothing else runs here)
		if tm, now := m.ps.SimTimes()[i], uint32(mono.Now()); m.ps.SimBuffers()[i] > 0 && tm+2 < now {
			rc.Fail("C03", "access-not-recorded", "", "UpdateTime(%d) at %d s left the piece's access time at %d s (state %d)", i, now, tm, m.ps.SimStates()[i])
		}
	}
	before := m.ps.SimBuffers()
	states := m.ps.SimStates()
	times := m.ps.SimTimes()
	now := uint32(mono.Now())
	ndata := 0
	for _, b := range before {
		if b > 0 {
			ndata++
		}
	}
	if ndata == 0 {
		return
	}
	target := int64(st.Choice(ndata+1)) * g.PieceSize
	avail := make([]uint16, g.NPieces)
	for j := range avail {
		avail[j] = uint16(st.Choice(3))
	}
	var cbs []int
	mark := rc.Tick()
	n := m.ps.Expire(target, avail, func(index uint32) {
		now := rc.Tick()
		cbs = append(cbs, int(index))
		m.dis[int(index)] = append(m.dis[int(index)], span{mark, now})
		mark = now
	})
	after := m.ps.SimBuffers()
	var ev, kept []int
	for j := range before {
		if before[j] > 0 && after[j] == 0 {
			ev = append(ev, j)
		} else if after[j] > 0 {
			kept = append(kept, j)
		}
		if before[j] == 0 && after[j] > 0 {
			rc.Fail("C03", "expire-allocated", "", "Expire allocated piece %d", j)
		}
	}
	rc.Tracef("sequential Expire(s%d target=%d): evicted %v kept %v callbacks %v", m.id, target, ev, kept, cbs)
	simrt.Probe("sequential-expire")
	if n != len(ev) {
		rc.Fail("C03", "expire-count", "sequential", "Expire returned %d, %d pieces lost their buffer", n, len(ev))
	}
	if b := m.ps.Bytes(); b > target && len(kept) > 0 {
		rc.Fail("C03", "expire-target", "", "after Expire(target=%d) with nothing else running Bytes()=%d and %d evictable pieces remain", target, b, len(kept))
	}
	age := func(j int) uint32 {
		if now < times[j] {
			return 0
		}
		return now - times[j]
	}
	for _, e := range ev {
		for _, r := range kept {
			if age(e) >= 7200 && age(r) >= 7200 {
				continue
			}
			if age(e) < age(r) {
				rc.Fail("C03", "expire-lru", "", "evicted piece %d (idle %ds) while keeping piece %d (idle %ds)", e, age(e), r, age(r))
			}
		}
	}
	want := map[int]int{}
	for _, e := range ev {
		if states[e] == 1 {
			want[e]++
		}
	}
	for _, c := range cbs {
		want[c]--
	}
	for j, d := range want {
		if d > 0 {
			rc.Fail("C03", "expire-callback", "missing", "complete piece %d evicted without a report", j)
		} else if d < 0 {
			rc.Fail("C03", "expire-callback", "spurious", "piece %d reported %d times too often (complete before: %v)", j, -d, states[j] == 1)
		}
	}
}

func storeAfterDel(rc *RunCtx, m *storeModel) {
	for j, b := range m.ps.SimBuffers() {
		if b != 0 {
			rc.Fail("C03", "released", "buffer", "store %d piece %d keeps a %d-byte buffer after Del", m.id, j, b)
		}
	}
	_, _, err := m.ps.AddData(0, 0, m.block(0, 0), 1)
	if !errors.Is(err, piece.ErrDeleted) {
		rc.Fail("C03", "after-del", "adddata", "AddData after Del: err=%v", err)
	}
	buf := make([]byte, 64)
	if n, _ := m.ps.ReadAt(buf, 0); n != 0 {
		rc.Fail("C01", "read-after-del", "", "ReadAt returned %d bytes after Del", n)
	}
	if done, _, _ := m.ps.Finalise(0, hash.Hash(m.hashes[0])); done {
		rc.Fail("C01", "finalise-after-del", "", "Finalise reported done after Del")
	}
}

// storeHistory applies the interval rule: a successful read (or a
// "complete" observation) of piece i must overlap a window that starts at
// the invocation of a Finalise(i) that reported done and ends at the return
// of the first discard of i invoked after that Finalise returned.
func storeHistory(rc *RunCtx, m *storeModel) {
	const inf = ^uint64(0)
	for _, r := range m.reads {
		ok := false
		for _, f := range m.fin[r.piece] {
			if f.inv >= r.ret {
				continue
			}
			end := inf
			for _, d := range m.dis[r.piece] {
				if d.inv > f.ret && d.ret < end {
					end = d.ret
				}
			}
			if m.delSpan != nil && m.delSpan.inv > f.ret && m.delSpan.ret < end {
				end = m.delSpan.ret
			}
			if r.inv < end {
				ok = true
				break
			}
		}
		if !ok {
			rc.Fail("C01", "read-unverified", r.what, "store %d piece %d observed complete/readable during ticks [%d,%d] with no verified-and-not-discarded window (finalised %v, discarded %v, del %v)",
				m.id, r.piece, r.inv, r.ret, m.fin[r.piece], m.dis[r.piece], m.delSpan)
		}
	}
}
