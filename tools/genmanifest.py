#!/usr/bin/env python3
"""Generates /verif/MANIFEST.json from the table below (kept in one place so
that the manifest is always schema-valid and consistent)."""
import json, sys, os

VERIF = os.path.dirname(os.path.dirname(os.path.abspath(__file__)))

TECH = "deterministic simulation with fault injection (seeded scheduler over real goroutines in a synctest bubble, simulated network/HTTP/clock, reference-model oracles, seeded search + replay + shrinking)"

# property -> (design section, level text, level note)
CLAIMED = {
}

NOT_APPLICABLE = {
}

def load():
    g = {}
    exec(open(os.path.join(VERIF, "tools", "manifest_table.py")).read(), g)
    return g["CLAIMED"], g["NOT_APPLICABLE"]

def main():
    claimed, na = load()
    checks = []
    for pid in sorted(claimed):
        c = claimed[pid]
        checks.append({
            "property_id": pid,
            "quick_cmd": "./check %s quick" % pid,
            "thorough_cmd": "./check %s thorough" % pid,
            "evidence_file": "/verif/evidence/%s.json" % pid,
            "replay_cmd_template": "./check replay {path}",
            "engine": "simworld",
            "level_claimed": {"category": "exploration", "text": c["text"], "design_ref": c["ref"]},
            "level_note": c["note"],
            "technique": c.get("technique", TECH),
        })
    m = {
        "version": 1,
        "setup_cmd": "./check setup",
        "hooks": {
            "guard": "none: instrumentation is applied by /verif/tools/simrewrite to a scratch copy of /repo at build time; nothing is committed in /repo",
            "enable": "./check build  (rsync /repo to a scratch dir, add /verif/instrument/*/zz_sim.go companion files and /verif/sim as zzsim/, run simrewrite, go1.26.8 build -overlay /verif/overlay)",
            "baseline_off_cmd": "cd /repo && go build ./... && go test -vet=off -count=1 ./...",
            "source_commits": [],
            "add_only": True,
        },
        "engines": [{
            "name": "simworld",
            "path": "/verif/sim (simrt scheduler, harness, reference parties), /verif/tools/simrewrite, /verif/overlay, /verif/instrument",
            "serves_properties": sorted(claimed),
            "kind_free_text": "deterministic simulator: real storrent goroutines inside a go1.26.8 testing/synctest bubble, released one at a time by a seeded scheduler at yield points inserted mechanically before/after every synchronisation operation; simulated TCP/UDP/HTTP/clock; fault injection; reference-model oracles; seeded search with shrinking and exact replay",
        }],
        "checks": checks,
        "notes": "Every check rebuilds the simulator from /repo's working tree (cached by content hash under /verif/.cache). VERIF_SEED selects the base seed, VERIF_BUDGET (seconds) overrides the exploration budget, VERIF_WORKERS the number of worker processes. Known findings: /verif/known_findings.txt. See DESIGN.md.",
        "not_applicable": [{"property_id": p, "reason": na[p]} for p in sorted(na)],
    }
    json.dump(m, open(os.path.join(VERIF, "MANIFEST.json"), "w"), indent=1)
    print("MANIFEST.json: %d checks, %d not applicable" % (len(checks), len(na)))

main()
