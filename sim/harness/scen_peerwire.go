package harness

import (
	"context"
	"fmt"
	"slices"
	"sort"
	"time"

	"github.com/jech/storrent/config"
	"github.com/jech/storrent/known"
	"github.com/jech/storrent/peer"
	"github.com/jech/storrent/tor"
	"github.com/jech/storrent/zzsim/refwire"
	"github.com/jech/storrent/zzsim/simnet"
	"github.com/jech/storrent/zzsim/simrt"
)

// C11 (everything storrent sends is conformant) and C16 (upload and
// choking discipline).

func init() {
	Register(&Scenario{
		Name: "conformance", Knobs: true, Props: []string{"C11"}, CrashTo: "C05", Also: map[string]int{"C05": 1},
		Horizon: 3 * time.Hour, MaxSteps: 2000000, Weight: 1, Main: conformMain,
	})
	Register(&Scenario{
		Name: "upload", Knobs: true, Props: []string{"C16"}, CrashTo: "C05", Also: map[string]int{"C05": 1, "C01": 1}, // C01: the content of every uploaded block
		Horizon: 3 * time.Hour, MaxSteps: 2000000, Weight: 1, Main: uploadMain,
	})
}

func drawHoldings(st *simrt.Stream, np int) []int {
	var out []int
	switch st.Weighted(2, 2, 2, 2) {
	case 0: // nothing
	case 1: // a few (below pieces/72 when there are that many)
		k := 1
		if np >= 144 {
			k = 1 + st.Choice(np/72-1)
		}
		for ; k > 0; k-- {
			out = append(out, st.Choice(np))
		}
	case 2: // many
		for i := 0; i < np; i++ {
			if st.Bool(2, 3) {
				out = append(out, i)
			}
		}
	case 3: // everything
		for i := 0; i < np; i++ {
			out = append(out, i)
		}
	}
	sort.Ints(out)
	return out
}

func conformMain(rc *RunCtx) {
	st := rc.St
	w := NewWorld(rc)
	defer w.Shutdown()
	counts := []int{1, 7, 8, 9, 16, 24, 64, 72, 80, 150}
	spec := GenTorSpec(st, SpecOpts{PieceCounts: counts, MultiFile: 1, Huge: true})
	config.PrefetchRate = float64(simrt.Pick(st, 0, 65536, 768*1024))
	config.SetIdleRate(uint32(simrt.Pick(st, 65536, 0, 1<<20)))
	t, err := w.AddTorrent(spec, false, "")
	if err != nil {
		rc.Fail("C11", "setup", "", "AddTorrent: %v", err)
		return
	}
	var held []int
	if spec.Sparse {
		lp := spec.LivePieces()
		held = drawHoldings(st, len(lp))
		for k := range held {
			held[k] = lp[held[k]]
		}
	} else {
		held = drawHoldings(st, spec.Geo.NPieces)
	}
	w.Preload(t, spec, held)
	w.Link = func() (simnet.LinkCfg, simnet.LinkCfg) { return drawSysLink(st) }
	w.StartQuiescer(4 * time.Second)
	npeers := 2 + st.Choice(4)
	for i := 0; i < npeers; i++ {
		cfg := drawBookPeer(st, spec, fmt.Sprintf("peer%d", i), 7000+i)
		cfg.Reqq = simrt.Pick(st, -1, 0, 1, 2, 3, 250, 1<<31-1)
		cfg.AnswerWeights = []int{8, 2, 2, 0, 0, 0, 0, 1, 0, 0} // right, reject, silent, corrupt
		cfg.Interested = st.Bool(1, 2)
		if st.Bool(1, 2) {
			cfg.ExtP = 7000 + i
		}
		if cfg.Fast && len(cfg.AllowedFast) == 0 && st.Bool(1, 3) {
			cfg.AllowedFast = append(cfg.AllowedFast, spec.DrawPiece(st))
		}
		if cfg.Ext && st.Bool(1, 4) {
			cfg.ExtP = 9000 + i // (behind a port forwarder: not the port it is reached at)
		}
		p := w.NewPeer(spec, cfg)
		if st.Bool(1, 2) {
			p.Connect()
		} else {
			t.AddKnown(p.Addr, nil, "", known.Tracker)
		}
	}
	rc.SetSample("torrent", fmt.Sprintf("pieces=%d (mod 8 = %d) piece=%dK last block %d bytes, system holds %d pieces, %d peers", spec.Geo.NPieces, spec.Geo.NPieces%8, spec.Geo.PieceSize>>10, spec.Geo.Length%chunkSize, len(held), npeers))
	ctx, cancel := context.WithCancel(context.Background())
	defer cancel()
	if st.Bool(2, 3) {
		off := spec.DrawOffset(st)
		simrt.GoNamed("reader", func() {
			r := t.NewReader(ctx, off, spec.Geo.Length-off)
			defer r.Close()
			buf := make([]byte, 40000)
			for !w.stopped {
				n, err := r.Read(buf)
				if err != nil {
					return
				}
				if n == 0 {
					simrt.Sleep(50 * time.Millisecond)
				} else {
					rc.Progress()
					simrt.Sleep(time.Duration(st.Choice(1500)) * time.Millisecond)
				}
			}
		})
	}
	if st.Bool(1, 2) {
		// step monitor: judged by the system's own view, a request joins a
		// peer's outstanding list only while that peer object says
		// "unchoked" or has allowed-fast the piece.  (The wire-level rule
		// in RefPeer.conform cannot see a request issued between the
		// handling of a choke and the next quiescent point.)
		type pstate struct {
			choked bool
			out    map[uint32]bool
		}
		prev := map[*peer.Peer]*pstate{}
		cpp := uint32(spec.ChunksPerPiece())
		simrt.OnStep(func() {
			if rc.Failed() {
				return
			}
			for _, p := range t.SimPeers() {
				ps := prev[p]
				if ps == nil {
					ps = &pstate{out: map[uint32]bool{}}
					prev[p] = ps
				}
				choked := !p.SimUnchoked()
				out := p.SimOutstanding()
				if choked && ps.choked {
					for _, c := range out {
						if !ps.out[c] && !slices.Contains(p.SimFast(), c/cpp) {
							rc.Fail("C11", "request-while-choked", "own-state", "a request for chunk %d (piece %d) joined the outstanding requests of a peer that the system itself had recorded as choking it, and that had not allowed-fast the piece", c, c/cpp)
						}
					}
				}
				ps.choked = choked
				clear(ps.out)
				for _, c := range out {
					ps.out[c] = true
				}
			}
		})
	}
	nsteps := 3 + st.Choice(10)
	for k := 0; k < nsteps && !rc.Failed(); k++ {
		simrt.Sleep(time.Duration(200+st.Choice(6000)) * time.Millisecond)
		var live []*RefPeer
		for _, p := range w.Peers {
			if p.Ready && !p.Closed {
				live = append(live, p)
			}
		}
		if len(live) > 0 {
			rc.Progress()
		}
		switch ev := st.Weighted(3, 2, 3, 2, 2, 1, 1, 2, 2); {
		case ev == 1 && len(live) > 0:
			p := live[st.Choice(len(live))]
			simrt.Fault("peer-disconnect")
			rc.Tracef("%s disconnects", p.Cfg.Name)
			p.Disconnect(st.Bool(1, 2))
		case ev == 2 && len(live) > 0:
			p := live[st.Choice(len(live))]
			if p.ChokingSys {
				p.Unchoke()
			} else {
				simrt.Fault("peer-chokes")
				rc.Tracef("%s chokes", p.Cfg.Name)
				p.Choke()
			}
		case ev == 3 && len(live) > 0:
			p := live[st.Choice(len(live))]
			i := spec.DrawPiece(st)
			simrt.Fault("advertisement-changes")
			p.SetHave(i, !p.Have[i])
		case ev == 4:
			for _, p := range w.Peers {
				if p.Closed || p.conn == nil {
					simrt.Probe("peer-reconnects")
					rc.Tracef("%s reconnects", p.Cfg.Name)
					p.Connect()
					break
				}
			}
		case ev == 5:
			simrt.Fault("evict-all")
			t.Pieces.Expire(0, nil, func(i uint32) { t.Have(i, false) })
		case ev == 6:
			simrt.Sleep(time.Duration(20+st.Choice(60)) * time.Second)
		case ev == 8 && len(live) > 0:
			// an aimed choke: it is held in the network and released at the
			// step at which a command of the scheduler (computed while the
			// peer was still unchoked) sits in that peer's queue
			p := live[st.Choice(len(live))]
			if p.ChokingSys || p.conn == nil {
				break
			}
			var sp *peer.Peer
			for _, q := range t.SimPeers() {
				if string(q.Id) == string(p.ID) {
					sp = q
				}
			}
			if sp == nil {
				break
			}
			simrt.Fault("peer-choke-aimed")
			rc.Tracef("%s chokes, aimed at a pending command", p.Cfg.Name)
			c := p.conn
			c.Stall()
			p.Choke()
			if simrt.AwaitStep(func() bool { return sp.SimCommands() > 0 }, time.Duration(1+st.Choice(8))*time.Second) {
				simrt.Probe("choke-released-with-a-command-pending")
			}
			c.Unstall()
			simrt.Sleep(time.Duration(st.Choice(3000)) * time.Millisecond)
			if !p.Closed {
				p.Unchoke()
			}
		case ev == 7 && len(live) > 0:
			// a peer that chokes and unchokes in quick succession, while the
			// scheduler's commands for it are under way
			p := live[st.Choice(len(live))]
			simrt.Fault("peer-choke-flapping")
			rc.Tracef("%s flaps between choke and unchoke", p.Cfg.Name)
			for n := 3 + st.Choice(10); n > 0 && !p.Closed; n-- {
				if p.ChokingSys {
					p.Unchoke()
				} else {
					p.Choke()
				}
				simrt.Sleep(time.Duration(st.Choice(120)) * time.Millisecond)
			}
			if p.ChokingSys && !p.Closed {
				p.Unchoke()
			}
		}
	}
	if rc.Failed() || !st.Bool(1, 2) {
		return
	}
	if !spec.Sparse && st.Bool(1, 8) {
		// a crowd: several dozen peers with a known port arrive, are
		// announced by PEX, and leave within one PEX interval (a PEX
		// message carries at most 50 additions and 50 deletions)
		simrt.Fault("crowd-arrives-and-leaves")
		var crowd []*RefPeer
		for i, n := 0, 52+st.Choice(20); i < n; i++ {
			cfg := PeerCfg{
				Name: fmt.Sprintf("crowd%d", i), Port: 8000 + i, ExtP: 8000 + i, Ext: true, Fast: st.Bool(1, 2),
				Have: func(int) bool { return false }, Advertise: 0, Reqq: -1, MetadataSize: -1, UnchokeAfter: -1,
			}
			p := w.NewPeer(spec, cfg)
			p.Connect()
			crowd = append(crowd, p)
		}
		simrt.Sleep(time.Duration(130+st.Choice(60)) * time.Second)
		rc.Tracef("the crowd leaves")
		for _, p := range crowd {
			p.Disconnect(st.Bool(1, 4))
			if st.Bool(1, 3) {
				simrt.Sleep(time.Duration(st.Choice(500)) * time.Millisecond)
			}
		}
	}
	// PEX convergence: the peer set stops changing; after three PEX
	// intervals every capable peer knows exactly the others
	for k := range w.Listeners {
		delete(w.Listeners, k)
	}
	regKey := func() string {
		var ids []string
		for _, sp := range t.SimPeers() {
			ids = append(ids, fmt.Sprintf("%x@%v", sp.Id, sp.GetAddr()))
		}
		sort.Strings(ids)
		return fmt.Sprint(ids)
	}
	stable := false
	for try := 0; try < 4 && !stable; try++ {
		if !w.AwaitQuiet(30 * time.Second) {
			continue
		}
		before := regKey()
		simrt.Sleep(4*time.Minute + 10*time.Second)
		if !w.AwaitQuiet(30 * time.Second) {
			continue
		}
		stable = regKey() == before
	}
	if !stable {
		simrt.Probe("peer-set-never-stable")
		if w.LoopStuck(t) {
			rc.Fail("C05", "event-loop-stuck", "", "the torrent's event loop does not answer a status query any more (%d events queued): handling some event never terminated", t.SimEventLen())
		}
		return
	}
	reg := t.SimPeers()
	type ent struct {
		id   string
		addr string
	}
	var known []ent
	for _, sp := range reg {
		a := sp.GetAddr()
		if a.Port() > 0 {
			known = append(known, ent{string(sp.Id), fmt.Sprintf("%v:%d", a.Addr(), a.Port())})
		}
	}
	for _, p := range w.Peers {
		if !p.Ready || p.Closed || p.Cfg.NoPex || !(p.Cfg.Ext && p.SysHS.Extended()) {
			continue
		}
		registered := false
		for _, sp := range reg {
			if string(sp.Id) == string(p.ID) {
				registered = true
			}
		}
		if !registered {
			continue
		}
		want := map[string]bool{}
		for _, e := range known {
			if e.id != string(p.ID) {
				want[e.addr] = true
			}
		}
		simrt.Probe("pex-convergence-checked")
		for a := range want {
			if !p.PexAnnounced[a] {
				rc.Fail("C11", "pex-missing", "", "%s: after 4 minutes without change the system has not announced connected peer %s (announced: %v)", p.Cfg.Name, a, keysOf(p.PexAnnounced))
			}
		}
		for a := range p.PexAnnounced {
			if !want[a] {
				rc.Fail("C11", "pex-departure-not-reported", "", "%s: after 4 minutes without change %s is still announced although it is not connected (connected: %v)", p.Cfg.Name, a, keysOf(want))
			}
		}
	}
}

func keysOf(m map[string]bool) []string {
	var out []string
	for k := range m {
		out = append(out, k)
	}
	sort.Strings(out)
	return out
}

// ---- C16 -------------------------------------------------------------------------------

func checkUnchoking(rc *RunCtx, w *World, ts []*tor.Torrent, when string) {
	n := 0
	for _, t := range ts {
		for _, p := range t.SimPeers() {
			if p.SimAmUnchoking() {
				n++
			}
			limit := 1024
			for _, rp := range w.Peers {
				if string(rp.ID) == string(p.Id) && rp.SysExt != nil && rp.SysExt.HasReqq {
					limit = int(rp.SysExt.Reqq)
				}
			}
			if q := p.SimUploadQueue(); q > limit {
				rc.Fail("C16", "upload-queue", "", "a peer's upload queue holds %d requests; the queue depth storrent advertised is %d", q, limit)
			}
		}
	}
	if g := peer.NumUnchoking(); g != n {
		rc.Fail("C16", "num-unchoking", when, "peer.NumUnchoking()=%d but %d registered peers are being unchoked (%s)", g, n, when)
	}
	if g := peer.NumUnchoking(); g < 0 {
		rc.Fail("C16", "num-unchoking", "negative", "peer.NumUnchoking()=%d", g)
	}
	// the wire view: live connections whose reference end last saw unchoke
	m := 0
	for _, rp := range w.Peers {
		if rp.Ready && !rp.Closed && rp.SysUnchokedUs {
			registered := false
			for _, t := range ts {
				for _, p := range t.SimPeers() {
					if string(p.Id) == string(rp.ID) {
						registered = true
					}
				}
			}
			if registered {
				m++
			}
		}
	}
	if m != n {
		detail := ""
		for _, t := range ts {
			for _, p := range t.SimPeers() {
				for _, rp := range w.Peers {
					if string(rp.ID) == string(p.Id) {
						detail += fmt.Sprintf(" %s[sys:unchoking=%v wire:unchoked=%v ready=%v closed=%v pending=%d/%d interested-sent]", rp.Cfg.Name, p.SimAmUnchoking(), rp.SysUnchokedUs, rp.Ready, rp.Closed, rp.conn.Pending(), rp.conn.PeerPending())
					}
				}
			}
		}
		rc.Fail("C16", "unchoke-wire", when, "%d registered peers are marked as unchoked, %d live connections last saw unchoke (%s):%s", n, m, when, detail)
	}
}

func uploadMain(rc *RunCtx) {
	st := rc.St
	w := NewWorld(rc)
	defer w.Shutdown()
	spec := GenTorSpec(st, SpecOpts{MaxPieces: 8, Big: st.Bool(1, 6), MultiFile: 1, Huge: true})
	config.SetIdleRate(0)
	config.SetUploadRate(float64(simrt.Pick(st, 512*1024, 16*1024, 1<<30)))
	t, err := w.AddTorrent(spec, false, "")
	if err != nil {
		rc.Fail("C16", "setup", "", "AddTorrent: %v", err)
		return
	}
	np := spec.Geo.NPieces
	lp := spec.LivePieces()
	var held []int
	for _, i := range lp {
		if st.Bool(3, 4) {
			held = append(held, i)
		}
	}
	w.Preload(t, spec, held)
	// a piece to ask for: any piece; in a sparse torrent mostly one that can be held
	pick := func() int {
		if spec.Sparse && st.Bool(7, 8) {
			return lp[st.Choice(len(lp))]
		}
		return st.Choice(np)
	}
	isHeld := map[int]bool{}
	for _, i := range held {
		isHeld[i] = true
	}
	w.Link = func() (simnet.LinkCfg, simnet.LinkCfg) { return drawSysLink(st) }
	w.StartQuiescer(3 * time.Second)
	nl := 1 + st.Choice(7)
	rc.SetSample("torrent", fmt.Sprintf("piece=%dK pieces=%d last block %d bytes, system holds %v, %d leechers, upload rate %v", spec.Geo.PieceSize>>10, np, spec.Geo.Length%chunkSize, held, nl, config.UploadRate()))
	join := &Join{n: nl}
	for i := 0; i < nl; i++ {
		cfg := PeerCfg{
			Name: fmt.Sprintf("leech%d", i), Port: 0, Fast: st.Bool(1, 2), Ext: st.Bool(2, 3), MSE: st.Bool(1, 4),
			Have: func(int) bool { return false }, Advertise: st.Choice(2), Reqq: simrt.Pick(st, -1, -1, 100000, 1000, 16), MetadataSize: -1, UnchokeAfter: -1,
		}
		flood := st.Bool(1, 6)
		stopRead := st.Bool(1, 4)
		nops := 5 + st.Choice(25)
		p := w.NewPeer(spec, cfg)
		p.Connect()
		simrt.GoNamed("driver-"+cfg.Name, func() {
			defer join.Done()
			for k := 0; k < 100 && !p.Ready && !p.Closed; k++ {
				simrt.Sleep(100 * time.Millisecond)
			}
			if !p.Ready {
				return
			}
			p.Send(refwire.Interested{})
			for op := 0; op < nops && !p.Closed && !rc.Failed(); op++ {
				simrt.Sleep(time.Duration(st.Choice(3000)) * time.Millisecond)
				if p.Closed {
					return
				}
				switch st.Weighted(10, 2, 2, 1, 1, 1, 1) {
				case 0: // a request, mostly valid
					i := pick()
					pl := spec.Geo.PieceLen(i)
					b := uint32(st.Choice(int((pl+chunkSize-1)/chunkSize))) * chunkSize
					l := uint32(min(int64(chunkSize), pl-int64(b)))
					switch st.Weighted(12, 1, 1, 1, 1, 1, 1, 2) {
					case 7:
						// a full block asked for where the torrent ends earlier
						l = chunkSize
						if st.Bool(1, 2) {
							i = np - 1
							pl = spec.Geo.PieceLen(i)
							b = uint32((pl - 1) / chunkSize * chunkSize)
						}
					case 1:
						l = 0
					case 2:
						l = chunkSize + 1
					case 3:
						// large enough to be unmistakable, small enough not
						// to exhaust the worker's address space when the
						// system does allocate it
						l = uint32(simrt.Pick(st, 1<<27, 1<<28, 1<<27+5))
						simrt.Fault("request-huge-length")
					case 4:
						i = np + st.Choice(3)
					case 5:
						b += uint32(1 + st.Choice(100))
					case 6:
						b = uint32(pl) + uint32(st.Choice(3))*chunkSize
					}
					p.Request(uint32(i), b, l)
					if st.Bool(1, 6) {
						p.Request(uint32(i), b, l) // duplicate
					}
					if st.Bool(1, 5) {
						simrt.Sleep(time.Duration(st.Choice(300)) * time.Millisecond)
						simrt.Fault("leecher-cancels")
						p.CancelReq(uint32(i), b, l)
					}
				case 1:
					simrt.Fault("not-interested")
					var sp *peer.Peer
					for _, q := range t.SimPeers() {
						if string(q.Id) == string(p.ID) {
							sp = q
						}
					}
					if sp != nil && p.conn != nil && st.Bool(1, 2) {
						// aimed: held in the network, released at the step at
						// which a command of the torrent (an unchoke computed
						// while we were still interested) sits in our peer's queue
						c := p.conn
						c.Stall()
						p.Send(refwire.NotInterested{})
						if simrt.AwaitStep(func() bool { return sp.SimCommands() > 0 }, time.Duration(1+st.Choice(15))*time.Second) {
							simrt.Probe("not-interested-released-with-a-command-pending")
						}
						c.Unstall()
					} else {
						p.Send(refwire.NotInterested{})
					}
					simrt.Sleep(time.Duration(st.Choice(2000)) * time.Millisecond)
					p.Send(refwire.Interested{})
				case 2:
					if flood {
						simrt.Fault("request-flood")
						for k := 0; k < 300+st.Choice(200); k++ {
							i := pick()
							p.Request(uint32(i), uint32(st.Choice(spec.Geo.Chunks(i)))*chunkSize, chunkSize)
						}
					}
				case 3:
					if stopRead {
						simrt.Fault("leecher-stops-reading")
						p.Cfg.StopRead = true
						if st.Bool(1, 2) {
							// keep the system's write queue for us full, then
							// make it want to choke us while it cannot write
							for k := 0; k < 40+st.Choice(100); k++ {
								i := pick()
								p.Request(uint32(i), uint32(st.Choice(spec.Geo.Chunks(i)))*chunkSize, chunkSize)
							}
							simrt.Sleep(time.Duration(2+st.Choice(40)) * time.Second)
							simrt.Fault("not-interested-while-not-reading")
							p.Send(refwire.NotInterested{})
							simrt.Sleep(time.Duration(1+st.Choice(5)) * time.Second)
							p.Send(refwire.Interested{})
						}
						simrt.Sleep(time.Duration(5+st.Choice(90)) * time.Second)
						p.Cfg.StopRead = false
						p.wake.Wake()
					}
				case 4:
					simrt.Fault("peer-disconnect")
					p.Disconnect(st.Bool(1, 2))
					return
				case 5:
					// a piece is evicted under the leechers
					if len(held) > 0 {
						simrt.Fault("evict-all")
						t.Pieces.Expire(0, nil, func(i uint32) { t.Have(i, false) })
						simrt.Sleep(time.Second)
						if st.Bool(1, 3) {
							// a piece arrives corrupt first (its blocks are all
							// there while it is being hashed, and the hash fails)
							simrt.Fault("corrupt-piece-stored-and-hashed")
							i := held[st.Choice(len(held))]
							pc := append([]byte(nil), spec.Piece(i)...)
							pc[st.Choice(len(pc))] ^= 0x5a
							for off := 0; off < len(pc); off += chunkSize {
								t.Pieces.AddData(uint32(i), uint32(off), pc[off:min(off+chunkSize, len(pc))], ^uint32(0))
							}
							t.Pieces.Finalise(uint32(i), t.PieceHashes[i])
						}
						w.Preload(t, spec, held)
					}
				case 6:
					simrt.Sleep(time.Duration(20+st.Choice(40)) * time.Second) // unchoke rotation runs
				}
				if len(p.MyReqs) > 0 {
					rc.Progress()
				}
			}
		})
	}
	// system-side checks at quiescent points while the leechers work
	checks := 2 + st.Choice(6)
	heap0 := heapAllocBytes()
	uploaded := func() (n int64) {
		for _, p := range w.Peers {
			for _, m := range p.Recv {
				if pm, ok := m.Msg.(refwire.Piece); ok {
					n += int64(len(pm.Data))
				}
			}
		}
		return
	}
	memCheck := func() {
		// memory: what the system allocates while serving requests is
		// bounded by what it serves, not by the numbers in the requests
		h := heapAllocBytes()
		bound := uint64(64<<20) + 256*uint64(uploaded()) + 1024*rc.S.Step() // the harness itself copies every uploaded byte several times, and records every step of a long run
		if h-heap0 > bound {
			rc.Fail("C16", "alloc-bound", "", "the process allocated %d MiB while %d bytes were uploaded (bound %d MiB): allocation follows a length field of a request", (h-heap0)>>20, uploaded(), bound>>20)
		}
	}
	for k := 0; k < checks && !rc.Failed(); k++ {
		simrt.Sleep(time.Duration(1+st.Choice(15)) * time.Second)
		if w.AwaitQuiet(10 * time.Second) {
			checkUnchoking(rc, w, []*tor.Torrent{t}, "during")
		}
		memCheck()
	}
	join.Wait()
	memCheck()
	if rc.Failed() {
		for _, p := range w.Peers {
			req := map[string]int{}
			for _, r := range p.MyReqs {
				req[fmt.Sprintf("%d/%d/%d", r.Req.Index, r.Req.Begin, r.Req.Length)]++
			}
			got := map[string]int{}
			rej := map[string]int{}
			for _, m := range p.Recv {
				switch x := m.Msg.(type) {
				case refwire.Piece:
					got[fmt.Sprintf("%d/%d/%d", x.Index, x.Begin, len(x.Data))]++
				case refwire.RejectRequest:
					rej[fmt.Sprintf("%d/%d/%d", x.Index, x.Begin, x.Length)]++
				}
			}
			for k, n := range req {
				if got[k]+rej[k] > n {
					rc.Tracef("%s: block %s requested %d times, served %d times, rejected %d times (fast=%v)", p.Cfg.Name, k, n, got[k], rej[k], p.Cfg.Fast && p.SysHS.Fast())
				}
			}
		}
	}
	if rc.Failed() {
		return
	}
	if st.Bool(1, 3) {
		// the torrent is deleted while leechers are connected and unchoked:
		// the accounting must come back to zero all the same
		simrt.Fault("torrent-killed-with-leechers-unchoked")
		ctx, cancel := context.WithTimeout(context.Background(), time.Minute)
		t.Kill(ctx)
		cancel()
		simrt.Sleep(30 * time.Second)
		if n := peer.NumUnchoking(); n != 0 {
			rc.Fail("C16", "num-unchoking", "after-deletion", "peer.NumUnchoking()=%d after the only torrent was deleted", n)
		}
		return
	}
	for _, p := range w.Peers {
		p.Disconnect(false)
	}
	simrt.Sleep(30 * time.Second)
	if w.AwaitQuiet(time.Minute) {
		checkUnchoking(rc, w, []*tor.Torrent{t}, "after-all-left")
		if n := peer.NumUnchoking(); n != 0 {
			rc.Fail("C16", "num-unchoking", "after-all-left", "peer.NumUnchoking()=%d with nobody connected", n)
		}
	} else if w.LoopStuck(t) {
		rc.Fail("C05", "event-loop-stuck", "", "after every leecher has left the torrent's event loop does not answer a status query any more (%d events queued): handling some event never terminated", t.SimEventLen())
	}
	// every valid request for a held piece, made while unchoked and never
	// cancelled, on a connection that stayed up and kept reading, is a
	// candidate for having been served; nothing is demanded here (rate
	// limiting and rotation are legitimate), only counted
	served := 0
	for _, p := range w.Peers {
		for _, r := range p.MyReqs {
			if r.Answered > 0 {
				served++
			}
			if r.Answered > 1 {
				rc.Fail("C16", "answered-twice", "", "%s: request (%d, %d, %d) was answered %d times", p.Cfg.Name, r.Req.Index, r.Req.Begin, r.Req.Length, r.Answered)
			}
		}
	}
	if served > 0 {
		simrt.Probe("requests-served")
	}
}
