package refwire

import (
	"errors"
)

// The BitTorrent handshake (BEP 3, "peer protocol"): the byte 19, the string
// "BitTorrent protocol", 8 reserved bytes, the 20-byte SHA-1 info-hash and
// the 20-byte peer id; 1+19+8+20+20 = 68 bytes.
const (
	ProtocolString = "BitTorrent protocol"
	HandshakeLen   = 1 + len(ProtocolString) + 8 + 20 + 20 // 68
)

// Reserved bits, numbered as in the BEPs ("bit 0 is the most significant bit
// of the first reserved byte", i.e. reserved_byte[i] & mask):
//
//	extension protocol (BEP 10): "20th bit from the right" = reserved[5] & 0x10
//	DHT (BEP 5): "last bit of the 8 reserved bytes"        = reserved[7] & 0x01
//	fast extension (BEP 6): "third least significant bit"  = reserved[7] & 0x04
const (
	reservedExtendedByte = 5
	reservedExtendedMask = 0x10
	reservedDHTByte      = 7
	reservedDHTMask      = 0x01
	reservedFastByte     = 7
	reservedFastMask     = 0x04
)

// Handshake is the variable part of the 68-byte handshake.
type Handshake struct {
	Reserved [8]byte
	InfoHash [20]byte
	PeerID   [20]byte
}

func setBit(b *byte, mask byte, on bool) {
	if on {
		*b |= mask
	} else {
		*b &^= mask
	}
}

// SetExtended sets or clears the BEP 10 extension protocol bit.
func (h *Handshake) SetExtended(on bool) {
	setBit(&h.Reserved[reservedExtendedByte], reservedExtendedMask, on)
}

// SetDHT sets or clears the BEP 5 DHT bit.
func (h *Handshake) SetDHT(on bool) {
	setBit(&h.Reserved[reservedDHTByte], reservedDHTMask, on)
}

// SetFast sets or clears the BEP 6 fast extension bit.
func (h *Handshake) SetFast(on bool) {
	setBit(&h.Reserved[reservedFastByte], reservedFastMask, on)
}

// Extended reports whether the BEP 10 extension protocol bit is set.
func (h Handshake) Extended() bool {
	return h.Reserved[reservedExtendedByte]&reservedExtendedMask != 0
}

// DHT reports whether the BEP 5 DHT bit is set.
func (h Handshake) DHT() bool {
	return h.Reserved[reservedDHTByte]&reservedDHTMask != 0
}

// Fast reports whether the BEP 6 fast extension bit is set.
func (h Handshake) Fast() bool {
	return h.Reserved[reservedFastByte]&reservedFastMask != 0
}

// Bytes returns the 68-byte wire form of h.
func (h Handshake) Bytes() []byte {
	out := make([]byte, 0, HandshakeLen)
	out = append(out, byte(len(ProtocolString)))
	out = append(out, ProtocolString...)
	out = append(out, h.Reserved[:]...)
	out = append(out, h.InfoHash[:]...)
	out = append(out, h.PeerID[:]...)
	return out
}

// Errors returned by ParseHandshake.
var (
	ErrHandshakeLength   = errors.New("refwire: handshake is not 68 bytes long")
	ErrHandshakeProtocol = errors.New("refwire: handshake does not start with \\x13BitTorrent protocol")
)

// ParseHandshake parses a handshake; b must be exactly 68 bytes long and
// start with byte 19 followed by "BitTorrent protocol".
func ParseHandshake(b []byte) (Handshake, error) {
	var h Handshake
	if len(b) != HandshakeLen {
		return h, ErrHandshakeLength
	}
	if b[0] != byte(len(ProtocolString)) || string(b[1:20]) != ProtocolString {
		return h, ErrHandshakeProtocol
	}
	copy(h.Reserved[:], b[20:28])
	copy(h.InfoHash[:], b[28:48])
	copy(h.PeerID[:], b[48:68])
	return h, nil
}
