package harness

import (
	"bufio"
	"bytes"
	"encoding/binary"
	"fmt"
	"reflect"
	"runtime/metrics"
	"strconv"
	"time"

	"github.com/jech/storrent/protocol"
	"github.com/jech/storrent/zzsim/refwire"
	"github.com/jech/storrent/zzsim/simnet"
	"github.com/jech/storrent/zzsim/simrt"
)

func init() {
	Register(&Scenario{
		Name: "wire-decode", Props: []string{"C04"}, CrashTo: "C04",
		Horizon: time.Hour, MaxSteps: 300000, Weight: 1, Main: wireDecodeMain,
	})
	Register(&Scenario{
		Name: "wire-roundtrip", Props: []string{"C06"}, CrashTo: "C06",
		Horizon: time.Hour, MaxSteps: 300000, Weight: 1, Main: wireRTMain,
	})
}

// ---- helpers for harness goroutines that use real channels -----------------

func chSend[T any](ch chan<- T, v T) {
	simrt.Y(-1)
	ch <- v
	simrt.Y(-1)
}

// chRecvTimeout receives with a simulated-time limit.
func chRecvTimeout[T any](ch <-chan T, d time.Duration) (v T, ok bool, timedOut bool) {
	simrt.Y(-1)
	t := time.NewTimer(d)
	select {
	case v, ok = <-ch:
		t.Stop()
	case <-t.C:
		timedOut = true
	}
	simrt.Y(-1)
	return
}

func heapAllocBytes() uint64 {
	s := []metrics.Sample{{Name: "/gc/heap/allocs:bytes"}}
	metrics.Read(s)
	return s[0].Value.Uint64()
}

var addrA = simnet.TCPAddr("10.1.0.1", 40001)
var addrB = simnet.TCPAddr("10.2.0.2", 6881)

// ---- C06 ---------------------------------------------------------------------

func wireRTMain(rc *RunCtx) {
	st := rc.St
	n := 1 + st.Choice(24)
	maxData := 40000
	if st.Bool(1, 10) {
		maxData = 1 << 20
	}
	msgs := make([]wireMsg, n)
	kinds := map[string]int{}
	for i := range msgs {
		msgs[i] = genWireMsg(st, maxData)
		kinds[msgs[i].Kind]++
	}
	rc.SetSample("messages", kinds)

	// ---- part A: real Writer -> wire -> real Reader, with a tap for the reference decoder
	ab := simnet.DrawLink(st)
	if st.Bool(1, 4) {
		ab.Window = 512 + st.Choice(70000)
		if maxData > 100000 {
			ab.Window += 8192 // a 1 MiB message must fit in the reader's 6-minute deadline
		}
		simrt.Fault("small-window")
	}
	cutA := st.Bool(1, 4)
	if cutA {
		ab.Seg = simnet.SegCutAt
		ab.CutAt = 1 + st.Choice(2000)
		simrt.Fault("single-cut")
	}
	if ab.Seg != simnet.SegWhole {
		simrt.Fault(fmt.Sprintf("segmentation-%d", ab.Seg))
	}
	rc.SetSample("link", fmt.Sprintf("seg=%d cutAt=%d latency=%v jitter=%v window=%d", ab.Seg, ab.CutAt, ab.Latency, ab.Jitter, ab.Window))
	ca, cb := simnet.Pipe(addrA, addrB, ab, simnet.LinkCfg{})
	var tapped []byte
	ca.TapOut(func(p []byte) { tapped = append(tapped, p...) })
	wch := make(chan protocol.Message, st.Choice(8))
	wdone := make(chan struct{})
	rch := make(chan protocol.Message, st.Choice(4))
	rdone := make(chan struct{})
	simrt.GoNamed("protocol.Writer", func() { protocol.Writer(ca, nil, wch, wdone) })
	simrt.GoNamed("protocol.Reader", func() { protocol.Reader(cb, nil, nil, rch, rdone) })
	pauseDen := simrt.Pick(st, 0, 2, 5)
	stopFeed, feedDone := false, false
	simrt.GoNamed("feeder", func() {
		defer func() { feedDone = true }()
		for _, m := range msgs {
			if stopFeed {
				return
			}
			chSend(wch, cloneMsg(m.P))
			if pauseDen > 0 && st.Bool(1, pauseDen) {
				simrt.Sleep(time.Duration(1+st.Choice(20)) * time.Millisecond)
			}
		}
	})
	for i, m := range msgs {
		got, ok, to := chRecvTimeout(rch, 60*time.Minute)
		if to || !ok {
			rc.Fail("C06", "roundtrip-missing", m.Kind, "message %d of %d (%s) never came out of storrent's reader (timeout=%v closed=%v)", i, n, m.Kind, to, !ok)
			break
		}
		if e, isErr := got.(protocol.Error); isErr {
			rc.Fail("C06", "roundtrip-error", m.Kind, "storrent's reader reported %v at message %d (%s) of its own writer's stream", e.Error, i, m.Kind)
			break
		}
		if got == nil {
			rc.Fail("C06", "roundtrip-nil", m.Kind, "nil message at position %d", i)
			break
		}
		if m.RoundTrip {
			if same, why := sameProto(got, m.P); !same {
				rc.Fail("C06", "roundtrip-differs", m.Kind, "message %d: %s", i, why)
				break
			}
		} else if u, ok := got.(protocol.ExtendedUnknown); !ok || u.Subtype != m.R.(refwire.Extended).SubID {
			rc.Fail("C06", "roundtrip-differs", m.Kind, "message %d with foreign sub-id %d came back as %#v", i, m.R.(refwire.Extended).SubID, got)
			break
		}
		rc.Progress()
	}
	stopFeed = true
	simrt.Y(-1)
	if feedDone {
		close(wch)
	}
	close(rdone)
	ca.Close()
	cb.Close()
	if rc.Failed() {
		return
	}
	// reference decoder on the tapped bytes
	frames, rest := refwire.SplitFrames(tapped)
	if len(rest) != 0 || len(frames) != n {
		rc.Fail("C06", "ref-framing", "", "storrent wrote %d bytes that the reference codec cuts into %d frames + %d stray bytes; %d messages were sent", len(tapped), len(frames), len(rest), n)
		return
	}
	for i, f := range frames {
		m := msgs[i]
		want := refwire.Encode(m.R)
		if bytes.Equal(f, want) {
			continue
		}
		if why := refSemanticDiff(f, want); why != "" {
			rc.Fail("C06", "ref-differs", m.Kind, "message %d (%s): storrent emitted % x..., the reference codec %s", i, m.Kind, f[:min(len(f), 24)], why)
			return
		}
	}

	// ---- part B: reference encoder -> wire (with part of it as 'init') -> real Reader
	var stream []byte
	for _, m := range msgs {
		stream = append(stream, refwire.Encode(m.R)...)
	}
	ba := simnet.DrawLink(st)
	if st.Bool(1, 4) {
		ba.Seg = simnet.SegCutAt
		ba.CutAt = 1 + st.Choice(len(stream))
	}
	var initBytes []byte
	if st.Bool(1, 3) {
		initBytes = stream[:st.Choice(min(len(stream), 200)+1)]
		simrt.Fault("init-bytes")
	}
	cc, cd := simnet.Pipe(addrA, addrB, ba, simnet.LinkCfg{})
	rch2 := make(chan protocol.Message, st.Choice(4))
	rdone2 := make(chan struct{})
	simrt.GoNamed("protocol.Reader2", func() { protocol.Reader(cd, bytes.Clone(initBytes), nil, rch2, rdone2) })
	simrt.GoNamed("ref-sender", func() {
		rest := stream[len(initBytes):]
		for len(rest) > 0 {
			k := 1 + st.Choice(min(len(rest), 3000))
			cc.Write(rest[:k])
			rest = rest[k:]
		}
	})
	for i, m := range msgs {
		got, ok, to := chRecvTimeout(rch2, 60*time.Minute)
		if to || !ok {
			rc.Fail("C06", "refstream-missing", m.Kind, "message %d (%s) encoded by the reference codec never came out of storrent's reader", i, m.Kind)
			break
		}
		if e, isErr := got.(protocol.Error); isErr {
			rc.Fail("C06", "refstream-error", m.Kind, "storrent's reader reported %v at message %d (%s) encoded by the reference codec", e.Error, i, m.Kind)
			break
		}
		if got == nil {
			rc.Fail("C06", "refstream-nil", m.Kind, "nil message at position %d", i)
			break
		}
		if m.RoundTrip {
			if same, why := sameProto(got, m.P); !same {
				rc.Fail("C06", "refstream-differs", m.Kind, "message %d: %s", i, why)
				break
			}
		} else if u, ok := got.(protocol.ExtendedUnknown); !ok || u.Subtype != m.R.(refwire.Extended).SubID {
			rc.Fail("C06", "refstream-differs", m.Kind, "message %d with foreign sub-id %d decoded as %#v", i, m.R.(refwire.Extended).SubID, got)
			break
		}
	}
	close(rdone2)
	cc.Close()
	cd.Close()
}

// refSemanticDiff compares two frames that are not byte-identical: for
// extension messages whose payload is a bencoded dictionary the decoded
// content is compared (strictly decoded: sorted keys, exact layouts).
func refSemanticDiff(got, want []byte) string {
	gm, err := refwire.DecodeFrame(got)
	if err != nil {
		return "rejects it: " + err.Error()
	}
	wm, _ := refwire.DecodeFrame(want)
	ge, ok1 := gm.(refwire.Extended)
	we, ok2 := wm.(refwire.Extended)
	if !ok1 || !ok2 {
		return fmt.Sprintf("decodes it as %#v, expected %#v", trunc(gm), trunc(wm))
	}
	if ge.SubID != we.SubID {
		return fmt.Sprintf("sees sub-id %d, expected %d", ge.SubID, we.SubID)
	}
	// try each typed payload; the generated message decides which applies
	if a1, d1, err := refwire.DecodePex(we.Payload, true); err == nil && bytes.Contains(we.Payload, []byte("5:added")) {
		a2, d2, err2 := refwire.DecodePex(ge.Payload, true)
		if err2 != nil {
			return "rejects the PEX payload: " + err2.Error()
		}
		if !reflect.DeepEqual(normRefPex(a1), normRefPex(a2)) || !reflect.DeepEqual(normRefPex(d1), normRefPex(d2)) {
			return fmt.Sprintf("decodes PEX %v/%v, expected %v/%v", a2, d2, a1, d1)
		}
		return ""
	}
	if m1, err := refwire.DecodeMetadata(we.Payload, true); err == nil {
		m2, err2 := refwire.DecodeMetadata(ge.Payload, true)
		if err2 != nil {
			return "rejects the ut_metadata payload: " + err2.Error()
		}
		if m1.Type != m2.Type || m1.Piece != m2.Piece || m1.TotalSize != m2.TotalSize || m1.HasTotalSize != m2.HasTotalSize || !bytes.Equal(m1.Data, m2.Data) {
			return fmt.Sprintf("decodes ut_metadata %+v, expected %+v", m2, m1)
		}
		return ""
	}
	if h1, err := refwire.DecodeExtHandshake(we.Payload, true); err == nil && we.SubID == 0 {
		h2, err2 := refwire.DecodeExtHandshake(ge.Payload, true)
		if err2 != nil {
			return "rejects the extended handshake: " + err2.Error()
		}
		if len(h1.Other) == 0 {
			h1.Other = nil
		}
		if len(h2.Other) == 0 {
			h2.Other = nil
		}
		if len(h1.M) == 0 {
			h1.M = nil
		}
		if len(h2.M) == 0 {
			h2.M = nil
		}
		if !reflect.DeepEqual(h1, h2) {
			return fmt.Sprintf("decodes the extended handshake as %+v, expected %+v", h2, h1)
		}
		return ""
	}
	return fmt.Sprintf("expects payload % x, got % x", we.Payload[:min(len(we.Payload), 32)], ge.Payload[:min(len(ge.Payload), 32)])
}

func normRefPex(l []refwire.PexPeer) []string {
	var out []string
	for _, p := range l {
		out = append(out, fmt.Sprintf("%v:%d/%d", p.IP, p.Port, p.Flags))
	}
	return out
}

func trunc(m refwire.Message) refwire.Message {
	switch x := m.(type) {
	case refwire.Piece:
		if len(x.Data) > 16 {
			x.Data = x.Data[:16]
		}
		return x
	case refwire.Bitfield:
		if len(x.Bits) > 16 {
			x.Bits = x.Bits[:16]
		}
		return x
	}
	return m
}

// ---- C04 ---------------------------------------------------------------------

type genFrame struct {
	bytes    []byte // as put on the wire (length prefix included)
	announce uint32 // announced length
	kind     string
	id       int
	hostile  string // class of hostile bencode content, if any
}

var wireIDs = []int{0, 1, 2, 3, 4, 5, 6, 7, 8, 9, 13, 14, 15, 16, 17, 20, 10, 11, 12, 18, 19, 21, 255}

func hostileBencode(st *simrt.Stream) ([]byte, string) {
	k := st.Choice(17)
	if (k == 2 || k == 3) && !st.Bool(1, 8) {
		k = 11 // the declared-length allocation is a known finding: sample it, rarely
	}
	switch k {
	case 0:
		return bytes.Repeat([]byte("l"), 1+st.Choice(3000)), "deep-list"
	case 1:
		return bytes.Repeat([]byte("d1:a"), 1+st.Choice(1500)), "deep-dict"
	case 2:
		// (large enough to be unmistakable; several of them alive at once
		// must still fit in a worker's address space)
		n := simrt.Pick(st, "600000000", "999999999", "100000000", "4294967295", "99999999999999999999")
		return []byte("d1:v" + n + ":abe"), "declared-string-length"
	case 3:
		n := simrt.Pick(st, "600000000", "300000000")
		return []byte("d5:added" + n + ":abe"), "declared-string-length"
	case 4:
		return []byte("d8:msg_typei-1e5:piecei0ee"), "negative-int"
	case 5:
		return []byte("d8:msg_typei1e5:piecei99999999999999999999e10:total_sizei-5ee"), "overflow-int"
	case 6:
		return []byte("d1:mi5e1:pl1:ae4:reqq3:abc1:v" + "i7ee"), "wrong-types"
	case 7:
		return []byte("d1:vi1e1:vi2e1:a0:e"), "duplicate-unsorted-keys"
	case 8:
		return append([]byte("d8:msg_typei0e5:piecei0ee"), drawBytes(st, st.Choice(100))...), "trailing-garbage"
	case 9:
		return []byte("d1:md11:ut_metadatai" + strconv.Itoa(st.Choice(100000)-500) + "eee"), "m-out-of-range"
	case 10:
		return []byte("d5:added5:abcde7:added.f200:xe"), "bad-compact-lengths"
	case 12, 13:
		// well-formed peer lists whose flag strings have another length
		// (shorter, empty but present, longer)
		n := 1 + st.Choice(5)
		unit, key := 6, "added"
		if k == 13 {
			unit, key = 18, "added6"
		}
		peers := drawBytes(st, unit*n)
		nf := simrt.Pick(st, n-1, 0, st.Choice(n), n+1+st.Choice(3))
		return refwire.BEncode(map[string]any{key: peers, key + ".f": drawBytes(st, nf)}), "pex-flags-length"
	case 14, 15, 16:
		// the keys the decoders know, with values of every type and of odd
		// sizes (empty, one byte short, one byte long)
		keys := []string{"m", "p", "v", "reqq", "ipv4", "ipv6", "yourip", "metadata_size", "upload_only", "e", "complete_ago",
			"added", "added.f", "added6", "added6.f", "dropped", "dropped6", "msg_type", "piece", "total_size"}
		d := map[string]any{}
		for n := 1 + st.Choice(4); n > 0; n-- {
			key := keys[st.Choice(len(keys))]
			var v any
			switch st.Choice(7) {
			case 0:
				v = []byte{}
			case 1:
				v = drawBytes(st, simrt.Pick(st, 1, 3, 4, 5, 15, 16, 17, 6, 18))
			case 2:
				v = int64(simrt.Pick(st, 0, 1, -1, 2, 255, 256, 65535, 65536, 1<<31, 1<<32))
			case 3:
				v = []any{}
			case 4:
				v = []any{int64(1), []byte("x")}
			case 5:
				v = map[string]any{}
			default:
				v = map[string]any{"ut_pex": int64(st.Choice(300)), "ut_metadata": []byte("2"), "": int64(0)}
			}
			d[key] = v
		}
		return refwire.BEncode(d), "known-keys-odd-values"
	default:
		return drawBytes(st, st.Choice(64)), "random-bytes"
	}
}

func genFrameFor(st *simrt.Stream, allowBad bool) genFrame {
	kind := 0
	if allowBad {
		kind = st.Weighted(5, 4, 3, 4)
	}
	switch kind {
	case 0: // valid, from the reference encoder
		m := genWireMsg(st, 20000)
		b := refwire.Encode(m.R)
		id := -1
		if len(b) > 4 {
			id = int(b[4])
		}
		return genFrame{bytes: b, announce: binary.BigEndian.Uint32(b), kind: "valid-" + m.Kind, id: id}
	case 1: // valid body, wrong announced length
		m := genWireMsg(st, 2000)
		b := bytes.Clone(refwire.Encode(m.R))
		l := binary.BigEndian.Uint32(b)
		var nl uint32
		switch st.Choice(12) {
		case 0:
			nl = l + 1
		case 1:
			nl = l - 1
		case 2:
			nl = l + 2
		case 3:
			nl = l - 2
		case 4:
			nl = 0
		case 5:
			nl = 1
		case 6:
			nl = 2
		case 7:
			nl = 3
		case 8:
			nl = 1 << 20
		case 9:
			nl = 1<<20 + 1
		case 10:
			nl = 1 << 31
		default:
			nl = ^uint32(0)
		}
		binary.BigEndian.PutUint32(b, nl)
		id := -1
		if len(b) > 4 {
			id = int(b[4])
		}
		return genFrame{bytes: b, announce: nl, kind: "length-altered-" + m.Kind, id: id}
	case 2: // any id, random payload
		id := wireIDs[st.Choice(len(wireIDs))]
		n := simrt.Pick(st, 0, 1, 2, 3, 4, 5, 8, 9, 12, 13, 14, st.Choice(64))
		p := drawBytes(st, n)
		b := binary.BigEndian.AppendUint32(nil, uint32(1+n))
		b = append(b, byte(id))
		b = append(b, p...)
		return genFrame{bytes: b, announce: uint32(1 + n), kind: "random-payload", id: id}
	default: // extended message with hostile bencode
		sub := st.Choice(6)
		p, class := hostileBencode(st)
		b := binary.BigEndian.AppendUint32(nil, uint32(2+len(p)))
		b = append(b, 20, byte(sub))
		b = append(b, p...)
		return genFrame{bytes: b, announce: uint32(2 + len(p)), kind: "hostile-bencode", id: 20, hostile: class}
	}
}

func wireDecodeMain(rc *RunCtx) {
	st := rc.St
	nGood := st.Choice(4)
	var frames []genFrame
	for i := 0; i < nGood; i++ {
		frames = append(frames, genFrameFor(st, false))
	}
	frames = append(frames, genFrameFor(st, true))
	// trailing valid frames, so that reading past a frame is visible
	for i := 0; i < 3; i++ {
		frames = append(frames, genFrameFor(st, false))
	}
	frames = append(frames, genFrame{bytes: refwire.Encode(refwire.Bitfield{Bits: make([]byte, 3000)}), announce: 3001, kind: "valid-tail", id: 5})
	var stream []byte
	for _, f := range frames {
		stream = append(stream, f.bytes...)
	}
	bad := frames[nGood]
	rc.SetSample("frame", fmt.Sprintf("%s id=%d announced=%d bytes=%d hostile=%q after %d valid frames", bad.kind, bad.id, bad.announce, len(bad.bytes), bad.hostile, nGood))

	predelivered := st.Bool(1, 2)
	link := simnet.LinkCfg{}
	if !predelivered {
		link = simnet.DrawLink(st)
		if st.Bool(1, 3) {
			link.Seg = simnet.SegCutAt
			link.CutAt = 1 + st.Choice(len(stream))
		}
		if link.Seg != simnet.SegWhole {
			simrt.Fault(fmt.Sprintf("segmentation-%d", link.Seg))
		}
	}
	link.Window = len(stream) + 1
	// how the stream ends
	end := st.Weighted(3, 2, 1)
	switch end {
	case 1: // cut inside the stream: EOF at an arbitrary byte
		link.EOFAfter = 1 + st.Choice(len(stream))
	case 2:
		link.ResetAfterRead = 1 + st.Choice(len(stream))
	}
	cs, cr := simnet.Pipe(addrA, addrB, link, simnet.LinkCfg{})
	useGoroutine := !predelivered && st.Bool(1, 2)

	sender := func() {
		rest := stream
		for len(rest) > 0 {
			k := len(rest)
			if !predelivered {
				k = 1 + st.Choice(min(len(rest), 4000))
			}
			if _, err := cs.Write(rest[:k]); err != nil {
				return
			}
			rest = rest[k:]
		}
		cs.Close()
	}
	if predelivered {
		sender()
		simrt.Sleep(time.Second)
	} else {
		simrt.GoNamed("sender", sender)
	}

	if useGoroutine {
		wireDecodeViaReader(rc, cr, stream)
		return
	}

	starts := map[int]genFrame{}
	{
		o := 0
		for _, f := range frames {
			starts[o] = f
			o += len(f.bytes)
		}
	}
	r := bufio.NewReader(cr)
	pos := 0
	for i := 0; pos+4 <= len(stream); i++ {
		// the frame is whatever the stream announces at this position
		f := genFrame{announce: binary.BigEndian.Uint32(stream[pos:]), kind: "unaligned", id: -1}
		if g, ok := starts[pos]; ok {
			f.kind, f.hostile = g.kind, g.hostile
		}
		if f.announce > 0 && pos+4 < len(stream) {
			f.id = int(stream[pos+4])
		}
		present := min(len(stream)-pos, 4+int(min(uint64(f.announce), 1<<30)))
		consumedBefore := cr.BytesConsumed() - r.Buffered()
		if consumedBefore != pos {
			rc.Fail("C04", "framing", "drift", "before frame %d the decoder is at stream offset %d, frames end at %d", i, consumedBefore, pos)
			return
		}
		a0 := heapAllocBytes()
		m, err := protocol.Read(r, nil)
		a1 := heapAllocBytes()
		cons := cr.BytesConsumed() - r.Buffered() - pos
		frameLen := 4 + int64(f.announce)
		rc.Tracef("Read frame %d (%s id=%d announced=%d) -> %T err=%v consumed=%d", i, f.kind, f.id, f.announce, m, err, cons)
		if m == nil && err == nil {
			rc.Fail("C04", "nil-nil", fmt.Sprintf("id%d", f.id), "Read returned no message and no error for a %s frame, id %d, announced length %d", f.kind, f.id, f.announce)
			return
		}
		if m != nil && err != nil {
			rc.Fail("C04", "both", fmt.Sprintf("id%d", f.id), "Read returned message %T and error %v", m, err)
			return
		}
		if predelivered {
			bound := uint64(512<<10) + 512*uint64(min(frameLen, 4+1<<20)) // the announced frame length, which is capped at 1 MiB (x512: a list nested n deep costs n bytes of input and a slice, an interface and a decoder frame per level - 300 to 400 bytes; still linear in the message)
			if a1-a0 > bound {
				// measure again, in isolation and with warm caches: the
				// same bytes from memory
				b0 := heapAllocBytes()
				protocol.Read(bufio.NewReader(bytes.NewReader(stream[pos:])), nil)
				b1 := heapAllocBytes()
				if b1-b0 > bound {
					class := "other"
					if f.hostile == "declared-string-length" {
						class = "bencode-declared-string-length"
					} else if f.id == 20 && f.announce < 2 {
						class = "extended-length-underflow"
					}
					rc.Fail("C04", "alloc-bound", class, "decoding a %s frame (id %d, announced %d, %d bytes present) allocated %d bytes (%d when repeated in isolation; bound %d)", f.kind, f.id, f.announce, present, a1-a0, b1-b0, bound)
					return
				}
			}
		}
		if err != nil {
			simrt.Probe("decode-error")
			if f.announce > 1<<20 && cons != 4 && cons > 4 {
				rc.Fail("C04", "oversize-consumed", "", "a frame announcing %d bytes was refused after consuming %d bytes, want 4", f.announce, cons)
			}
			if cons > 4 && int64(cons) > frameLen {
				rc.Fail("C04", "read-beyond-frame", fmt.Sprintf("id%d", f.id), "decoding a %s frame (id %d, announced length %d) failed with %v after consuming %d bytes: %d beyond the frame", f.kind, f.id, f.announce, err, cons, int64(cons)-frameLen)
			}
			return
		}
		rc.Progress()
		if int64(cons) != frameLen {
			class := fmt.Sprintf("id%d", f.id)
			if int64(cons) < frameLen && pos+int(frameLen) > len(stream) {
				class = "truncated-frame-accepted"
			}
			rc.Fail("C04", "framing", class, "a %s frame (id %d) announcing %d bytes decoded to %T but %d bytes were consumed, want %d (%d bytes of it were in the stream)", f.kind, f.id, f.announce, m, cons, frameLen, present)
			return
		}
		if f.announce > 1<<20 {
			rc.Fail("C04", "oversize-accepted", "", "a frame announcing %d bytes was accepted", f.announce)
			return
		}
		if pos+int(frameLen) <= len(stream) {
			ref, rerr := refwire.DecodeFrame(stream[pos : pos+int(frameLen)])
			if rerr == nil {
				if same, cmp, why := sameRef(m, ref); cmp && !same {
					rc.Fail("C04", "ref-differs", fmt.Sprintf("id%d", f.id), "frame %d (%s): %s", i, f.kind, why)
					return
				}
			} else if f.id != 20 && f.id != 5 && f.id != 7 {
				// a fixed-layout frame the strict reference rejects (wrong length for its id)
				if reflect.TypeOf(m).Name() != "Unknown" {
					rc.Fail("C04", "accepted-malformed", fmt.Sprintf("id%d", f.id), "frame %d (%s, id %d, announced %d) is malformed (%v) but decoded to %T", i, f.kind, f.id, f.announce, rerr, m)
					return
				}
			}
		}
		if p, ok := m.(protocol.Piece); ok {
			protocol.PutBuffer(p.Data)
		}
		pos += int(frameLen)
	}
}

// wireDecodeViaReader drives the real protocol.Reader goroutine: the
// sequence it delivers must be the decodable prefix, then errors.
func wireDecodeViaReader(rc *RunCtx, cr *simnet.Conn, stream []byte) {
	ch := make(chan protocol.Message, rc.St.Choice(3))
	done := make(chan struct{})
	simrt.GoNamed("protocol.Reader", func() { protocol.Reader(cr, nil, nil, ch, done) })
	pos := 0
	for i := 0; pos+4 <= len(stream); i++ {
		f := genFrame{announce: binary.BigEndian.Uint32(stream[pos:]), kind: "derived", id: -1}
		if f.announce > 0 && pos+4 < len(stream) {
			f.id = int(stream[pos+4])
		}
		m, ok, to := chRecvTimeout(ch, 10*time.Minute)
		if to || !ok {
			rc.Fail("C04", "reader-silent", "", "protocol.Reader delivered nothing for frame %d within 10 simulated minutes (closed=%v)", i, !ok)
			break
		}
		if m == nil {
			rc.Fail("C04", "nil-nil", fmt.Sprintf("id%d", f.id), "protocol.Reader delivered a nil message for a frame with id %d, announced length %d", f.id, f.announce)
			break
		}
		if _, isErr := m.(protocol.Error); isErr {
			simrt.Probe("decode-error")
			break
		}
		rc.Progress()
		frameLen := 4 + int(min(uint64(f.announce), 1<<30))
		if pos+frameLen <= len(stream) && f.announce <= 1<<20 {
			if ref, rerr := refwire.DecodeFrame(stream[pos : pos+frameLen]); rerr == nil {
				if same, cmp, why := sameRef(m, ref); cmp && !same {
					rc.Fail("C04", "ref-differs", fmt.Sprintf("id%d", f.id), "frame %d through protocol.Reader: %s", i, why)
					break
				}
			}
		}
		pos += frameLen
	}
	close(done)
	cr.Close()
}
