module github.com/jech/storrent/zzsim

go 1.22
