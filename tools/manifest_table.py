NOTE = "Trusted base: the rewriter (/verif/tools/simrewrite), the simrt scheduler, the two-file go1.26.8 runtime overlay, testing/synctest, the independent reference implementations used as oracles. Sampling, not proof: see evidence for runs, distinct schedules, faults fired and probes hit."

CLAIMED = {
 "C01": {"ref": "DESIGN.md section 3 C01",
         "text": "Seeded exploration of interleavings of the real piece store (AddData/Finalise/ReadAt/Expire/Del and the lock-free flags) under a scheduler that preempts at every lock, atomic and sleep of tor/piece/piece.go, with corrupt/duplicate/misaligned/over-long blocks, wrong hashes, evictions, deletion and allocation failures; oracles: every byte read equals ground truth at its offset, and every successful read or 'complete' observation overlaps a verified-and-not-yet-discarded window (interval rule over the recorded history); no crash. Exploration is the right level: the property quantifies over schedules and histories of a concurrent store whose dangerous states exist only in interleavings.",
         "note": NOTE},
 "C03": {"ref": "DESIGN.md section 3 C03",
         "text": "Same store-level simulation as C01 over one to three stores sharing the allocator; oracles at quiescent points: alloc.Bytes() equals the total size of live piece buffers, Count()/Bytes() agree with them, a sequential Expire reaches its target evicting least-recently-used first and reports exactly the complete pieces it dropped, Del releases everything and nothing is allocated afterwards; the memory manager never panics.",
         "note": NOTE},
}

PENDING = "check not built yet in this session (design in DESIGN.md section 3); not claimed until its scenario and oracles exist"
NOT_APPLICABLE = {
 "C13": "pure function of an input byte string (ReadTorrent/ReadMagnet/WriteTorrent): no schedule, clock, fault or second party for a simulator to own; see DESIGN.md section 4",
 "C20": "pure function of the file table and the lookup path: no schedule, clock, fault or second party; see DESIGN.md section 4",
}
for p in ["C02","C04","C05","C06","C07","C08","C09","C10","C11","C12","C14","C15","C16","C17","C18","C19"]:
    NOT_APPLICABLE[p] = PENDING
