package tor

import (
	"sync"

	"github.com/jech/storrent/config"
	"github.com/jech/storrent/known"
	"github.com/jech/storrent/peer"
)

// Read-only accessors for the simulator's oracles (called only at instants
// where no other goroutine is executing) and resets of process globals.

func SimReset() { torrents = sync.Map{} }

func (t *Torrent) SimAvailable() []uint16 { return append([]uint16(nil), t.available...) }
func (t *Torrent) SimInFlight() []uint8   { return append([]uint8(nil), t.inFlight...) }
func (t *Torrent) SimPeers() []*peer.Peer { return append([]*peer.Peer(nil), t.peers...) }
func (t *Torrent) SimEventLen() int       { return len(t.Event) }
func (t *Torrent) SimProxy() string       { return t.proxy }
func (t *Torrent) SimAmInterested() bool  { return t.amInterested }
func (t *Torrent) SimInfoLen() int        { return len(t.Info) }
func (t *Torrent) SimInfoComplete() bool  { return t.infoComplete != 0 }

func (t *Torrent) SimConf() (config.DhtMode, bool, bool) {
	return t.dhtMode, t.useTrackers, t.useWebseeds
}

// SimRequested returns, per requested piece, its priorities and whether a
// completion channel is pending.
func (t *Torrent) SimRequested() (prios map[uint32][]int8, waiting map[uint32]bool) {
	prios = map[uint32][]int8{}
	waiting = map[uint32]bool{}
	for i, r := range t.requested.pieces {
		prios[i] = append([]int8(nil), r.prio...)
		waiting[i] = r.done != nil
	}
	return
}

func (t *Torrent) SimKnown() []known.Peer {
	var out []known.Peer
	for _, k := range t.known {
		out = append(out, *k)
	}
	return out
}

func SimCount() int { return count() }
